//go:build verif

package rows

import (
	"encoding/json"
	"fmt"
	"math/big"
	"sort"
	"strings"

	"github.com/indexsupply/shovel/dig"
	"github.com/indexsupply/shovel/shovel/config"
	"github.com/indexsupply/shovel/shovel/glf"

	"verifh/explore"
	"verifh/fw"
	"verifh/ref"
	"verifh/simeth"
	"verifh/simpg"
	"verifh/world"
)

// ---- declaration specs (the replayable description of one case) -----------------------------

// inSpec is one event input: ABI type (elementary, optionally one array suffix), indexed, selected.
type inSpec struct {
	T   string `json:"t"`
	Ix  bool   `json:"ix,omitempty"`
	Sel bool   `json:"sel,omitempty"`
}

// spec describes one case completely: the declaration and the recipe of the chain.
type spec struct {
	Part    string   `json:"part"`              // enumeration family (for the record)
	Inputs  []inSpec `json:"inputs,omitempty"`  // event inputs in declaration order; none = no event declaration
	Fields  []string `json:"fields,omitempty"`  // block/tx/receipt/log/trace fields in declaration (= column) order
	Prefix  string   `json:"prefix,omitempty"`  // field column name = Prefix + field name
	Shape   int      `json:"shape"`             // chain shape
	VOff    int      `json:"voff,omitempty"`    // rotation of the value cycles
	ArrLens []int    `json:"arrlens,omitempty"` // element counts of dynamic arrays, cycled over the logs
	Null    *nullAns `json:"null,omitempty"`    // environment: during the FIRST step the node answers "result": null for these calls
	Tup     []int    `json:"tup,omitempty"`     // [from, to): the (non-indexed) inputs from..to-1 are declared as the components of ONE tuple input
}

// nullAns describes a transient inconsistency of the source (a lagging backend behind one URL): during the
// first step, every call of the given class that concerns the target block is answered {"result": null}
// although the other calls of the same load are served; later steps are answered faithfully (good retry).
type nullAns struct {
	Method string `json:"m"`      // blocks | headers | receipts | logs | logs-head | traces
	Target string `json:"target"` // first | last | all (block of the first step's range)
}

var nullMethods = []string{"blocks", "headers", "receipts", "logs", "logs-head", "traces"}

func (s spec) String() string {
	var sb strings.Builder
	if len(s.Inputs) > 0 {
		sb.WriteString("Ev(")
		for i, in := range s.Inputs {
			if i > 0 {
				sb.WriteString(", ")
			}
			sb.WriteString(in.T)
			if in.Ix {
				sb.WriteString(" indexed")
			}
			if in.Sel {
				fmt.Fprintf(&sb, " ->v%d", i)
			}
		}
		sb.WriteString(")")
	} else {
		sb.WriteString("no event")
	}
	if len(s.Tup) == 2 {
		fmt.Fprintf(&sb, " inputs %d..%d are the components of one tuple input", s.Tup[0], s.Tup[1]-1)
	}
	fmt.Fprintf(&sb, " fields=%v", s.Fields)
	if s.Prefix != "" {
		fmt.Fprintf(&sb, " colprefix=%q", s.Prefix)
	}
	fmt.Fprintf(&sb, " shape=%d voff=%d", s.Shape, s.VOff)
	if len(s.ArrLens) > 0 {
		fmt.Fprintf(&sb, " arrlens=%v", s.ArrLens)
	}
	if s.Null != nil {
		fmt.Fprintf(&sb, " first-step answers null for %s of block(s) %s", s.Null.Method, s.Null.Target)
	}
	return sb.String()
}

func splitType(t string) (base string, arr bool, k int) {
	i := strings.IndexByte(t, '[')
	if i < 0 {
		return t, false, 0
	}
	base = t[:i]
	inner := t[i+1 : len(t)-1]
	if inner != "" {
		fmt.Sscanf(inner, "%d", &k)
	}
	return base, true, k
}

// parseDims splits "T[2][]" into T and [2, 0] (in order of appearance = innermost first; 0 = dynamic).
func parseDims(t string) (base string, dims []int) {
	i := strings.IndexByte(t, '[')
	if i < 0 {
		return t, nil
	}
	base = t[:i]
	for _, part := range strings.Split(strings.TrimSuffix(t[i+1:], "]"), "][") {
		k := 0
		if part != "" {
			fmt.Sscanf(part, "%d", &k)
		}
		dims = append(dims, k)
	}
	return base, dims
}

func isDynamicType(t string) bool {
	b, dims := parseDims(t)
	dyn := b == "bytes" || b == "string"
	for _, k := range dims {
		dyn = dyn || k == 0
	}
	return dyn
}

// mkDecl renders the spec as a reference declaration (integration ig1, table t1, source src1 from block 1).
func mkDecl(s spec) *world.Decl {
	d := &world.Decl{Name: "ig1", Table: "t1", Sources: []world.SrcRef{{Name: "src1", Start: 1}}}
	if len(s.Inputs) > 0 {
		d.Event = "Ev"
		for i, in := range s.Inputs {
			x := world.Input{Name: fmt.Sprintf("p%d", i), Type: in.T, Indexed: in.Ix}
			if in.Sel {
				x.Column = fmt.Sprintf("v%d", i)
			}
			d.Inputs = append(d.Inputs, x)
		}
	}
	for _, f := range s.Fields {
		d.Fields = append(d.Fields, world.Field{Name: f, Column: s.Prefix + f})
	}
	return d
}

// ---- values -----------------------------------------------------------------------------------

func pow2(n int) *big.Int { return new(big.Int).Lsh(big.NewInt(1), uint(n)) }

// boundary returns the sign/width boundary values of uintN / intN.
func boundary(base string) []*big.Int {
	var n int
	one := big.NewInt(1)
	if strings.HasPrefix(base, "uint") {
		n = 256
		if len(base) > 4 {
			fmt.Sscanf(base[4:], "%d", &n)
		}
		out := []*big.Int{
			big.NewInt(0), big.NewInt(1), new(big.Int).Sub(pow2(n), one), pow2(n - 1), new(big.Int).Sub(pow2(n-1), one),
		}
		for _, v := range machineWordEdges() { // value (not width) boundaries: the signed / unsigned 64-bit machine word
			if v.BitLen() <= n {
				out = append(out, v)
			}
		}
		return out
	}
	n = 256
	if len(base) > 3 {
		fmt.Sscanf(base[3:], "%d", &n)
	}
	max := new(big.Int).Sub(pow2(n-1), one)
	min := new(big.Int).Neg(pow2(n - 1))
	out := []*big.Int{
		big.NewInt(0), big.NewInt(1), big.NewInt(-1), max, min, new(big.Int).Add(min, one), new(big.Int).Sub(max, one), big.NewInt(-2),
	}
	for _, v := range machineWordEdges() {
		if v.Cmp(max) <= 0 {
			out = append(out, v)
		}
		if m := new(big.Int).Neg(v); m.Cmp(min) >= 0 {
			out = append(out, m)
		}
	}
	return out
}

// machineWordEdges: 2^63-1, 2^63, 2^63+1, 2^64-1, 2^64, 2^64+1 and a value between 2^63 and 2^64.
func machineWordEdges() []*big.Int {
	one := big.NewInt(1)
	mid, _ := new(big.Int).SetString("12500000000000000000", 10)
	return []*big.Int{
		new(big.Int).Sub(pow2(63), one), pow2(63), new(big.Int).Add(pow2(63), one), mid,
		new(big.Int).Sub(pow2(64), one), pow2(64), new(big.Int).Add(pow2(64), one),
	}
}

var textVals = []string{"", "a", "héllo wörld ✓", "it's a \"quoted\" \\ back\tslash\nnewline", "0123456789abcdefghijklmnopqrstuvwxyz-40+chars", "x;drop"}
var bytesLens = []int{0, 1, 31, 32, 33, 70}

// scalarVal returns the n-th value of an elementary type (a 32-byte word, or raw bytes for bytes/string).
func scalarVal(base string, n int, seed string) []byte {
	if n < 0 {
		n = -n
	}
	switch {
	case base == "address":
		return world.AddrWord(simeth.Addr(seed))
	case base == "bool":
		return world.U(uint64(n % 2))
	case strings.HasPrefix(base, "uint"), strings.HasPrefix(base, "int"):
		bs := boundary(base)
		return world.WordBig(bs[n%len(bs)])
	case base == "string":
		return []byte(textVals[n%len(textVals)])
	case base == "bytes":
		l := bytesLens[n%len(bytesLens)]
		var out []byte
		for i := 0; len(out) < l; i++ {
			out = append(out, simeth.Word(fmt.Sprintf("%s/%d", seed, i))...)
		}
		return out[:l]
	case strings.HasPrefix(base, "bytes"): // bytesN: left-aligned, zero padded
		var k int
		fmt.Sscanf(base[5:], "%d", &k)
		w := make([]byte, 32)
		copy(w, simeth.Word(seed)[:k])
		return w
	}
	panic("scalarVal: type " + base)
}

// ---- chains -----------------------------------------------------------------------------------

// shapes: per block, per tx, the number of matching logs. Blocks are numbered from 1.
var shapes = [][][]int{
	{{3, 1}, {2}},         // 2 blocks, 6 logs
	{{1}, {2, 3}, {1, 1}}, // 3 blocks, 8 logs
	{{2, 2}, {2, 2}},      // C14: 2 blocks x 2 txs x 2 logs (x 2 traces)
	{{3, 2}, {1, 3}},      // 2 blocks, 9 logs (integer sweeps: every boundary value occurs)
	{{0, 0}, {0, 0}},      // 4: transactions and traces but NO logs in any block (every logs bloom is empty)
	{{}, {2, 2}, {2, 2}},  // 5: a block without transactions FIRST in a 3-block step
	{{2, 2}, {}, {2, 2}},  // 6: ... in the MIDDLE
	{{2, 2}, {2, 2}, {}},  // 7: ... LAST
}

// c14Like: shapes with exactly the declared logs (no decoys) and two traces per transaction.
func c14Like(shape int) bool { return shape == 2 || shape >= 4 }

var decoyDecl = &world.Decl{Name: "decoy", Event: "Other", Inputs: []world.Input{{Name: "x", Type: "address", Indexed: true, Column: "x"}, {Name: "y", Type: "uint256", Column: "y"}}}

var callTypes = []string{"call", "delegatecall", "staticcall"}

// mkLogNested builds a log for a declaration with multi-dimensional array inputs: the data is the ABI encoding of
// the nested values (reference encoder), the oracle note holds the flattened innermost elements in order
// (one row per innermost element, element index counted from 0 over the whole input).
func mkLogNested(d *world.Decl, s spec, addr []byte, vals, flat []ref.Value) *simeth.Log {
	l := &simeth.Log{Address: addr, Topics: [][]byte{d.SigHash()}, Note: &world.LogNote{Decl: d, Vals: flat}, Tag: d.Name}
	var nodes []*ref.Node
	var nvals []ref.Value
	for i, in := range s.Inputs {
		if in.Ix {
			l.Topics = append(l.Topics, vals[i].([]byte))
			continue
		}
		base, dims := parseDims(in.T)
		nodes = append(nodes, ref.Leaf(base, dims...))
		nvals = append(nvals, vals[i])
	}
	if len(nodes) > 0 {
		l.Data = ref.EncodeInputs(nodes, nvals)
	}
	return l
}

func mkChain(s spec, d *world.Decl) *simeth.Chain { return mkChainT(s, d, false) }

// mkChainT: with asTuple the logs carry the topic and the data of the event whose inputs s.Tup are wrapped in a tuple
// (reference signature and reference encoder); everything else (values, positions, transactions) is the same.
func mkChainT(s spec, d *world.Decl, asTuple bool) *simeth.Chain {
	shape := shapes[s.Shape]
	var specs []simeth.BlockSpec
	n := 0  // running log number
	tn := 0 // running trace number
	for bi, txs := range shape {
		var bs simeth.BlockSpec
		for ti, nlogs := range txs {
			var ts simeth.TxSpec
			seed := fmt.Sprintf("rows/b%d/t%d", bi+1, ti)
			decoy := func(k int) *simeth.Log {
				sd := fmt.Sprintf("%s/decoy%d", seed, k)
				return decoyDecl.MkLog(simeth.Addr(sd+"/addr"), world.AddrWord(simeth.Addr(sd+"/x")), simeth.Word(sd+"/y"))
			}
			if !c14Like(s.Shape) && ti == 0 {
				ts.Logs = append(ts.Logs, decoy(0)) // log_idx != position among matching logs
			}
			for li := 0; li < nlogs; li++ {
				if d.Event == "" {
					ts.Logs = append(ts.Logs, decoy(li+1))
					continue
				}
				var vals, flat []ref.Value // flat: per input the value as the projection sees it (arrays flattened to their innermost elements, in order)
				nested := false
				for i, in := range s.Inputs {
					base, dims := parseDims(in.T)
					sd := fmt.Sprintf("%s/l%d/p%d", seed, li, i)
					if len(dims) == 0 {
						v := scalarVal(base, n+2*i+s.VOff, sd)
						vals, flat = append(vals, v), append(flat, v)
						continue
					}
					if len(dims) == 1 {
						cnt := dims[0]
						if cnt == 0 {
							cnt = (n + s.VOff) % 4
							if len(s.ArrLens) > 0 {
								cnt = s.ArrLens[n%len(s.ArrLens)]
							}
						}
						els := []any{}
						for e := 0; e < cnt; e++ {
							els = append(els, scalarVal(base, n+2*i+s.VOff+e, fmt.Sprintf("%s/e%d", sd, e)))
						}
						vals, flat = append(vals, els), append(flat, els)
						continue
					}
					// nested arrays: every dynamic dimension has 1..3 elements (an empty inner array has no defined row)
					nested = true
					leaves := []any{}
					var gen func(dd int, path string) any
					gen = func(dd int, path string) any {
						if dd < 0 {
							v := scalarVal(base, n+2*i+s.VOff+len(leaves), sd+path)
							leaves = append(leaves, v)
							return v
						}
						cnt := dims[dd]
						if cnt == 0 {
							cnt = 1 + (n+dd+len(leaves)+s.VOff)%3
						}
						els := []any{}
						for e := 0; e < cnt; e++ {
							els = append(els, gen(dd-1, fmt.Sprintf("%s/%d", path, e)))
						}
						return els
					}
					vals, flat = append(vals, gen(len(dims)-1, "")), append(flat, leaves)
				}
				addr := simeth.Addr(fmt.Sprintf("%s/l%d/addr", seed, li))
				if asTuple {
					ts.Logs = append(ts.Logs, mkLogTuple(d, s, addr, vals, flat))
				} else if nested {
					ts.Logs = append(ts.Logs, mkLogNested(d, s, addr, vals, flat))
				} else {
					ts.Logs = append(ts.Logs, d.MkLog(addr, vals...))
				}
				n++
			}
			ntr := 1 + (bi+ti)%2
			if c14Like(s.Shape) {
				ntr = 2
			}
			for k := 0; k < ntr; k++ {
				sd := fmt.Sprintf("%s/tr%d", seed, k)
				ts.Traces = append(ts.Traces, &simeth.Trace{From: simeth.Addr(sd + "/from"), To: simeth.Addr(sd + "/to"),
					Value: new(big.Int).SetBytes(simeth.Word(sd + "/val")[:11]), CallType: callTypes[tn%len(callTypes)]})
				tn++
			}
			bs.Txs = append(bs.Txs, ts)
		}
		specs = append(specs, bs)
	}
	return simeth.Build(specs, 11)
}

// ---- one execution ---------------------------------------------------------------------------

type prep struct {
	spec  spec
	decl  *world.Decl
	conf  string
	snap  *simpg.Snapshot
	chain *simeth.Chain
	// oracle: the chain the declared projection is computed from. It is p.chain except for tuple declarations, where it
	// is the twin chain whose logs are the same values emitted by the FLAT event (world.Decl has no tuples): by the row
	// rule a non-array tuple's components project exactly like the same inputs declared side by side.
	oracle *simeth.Chain
	batch  int
	plan   string   // the fetch plan shovel's planner derives for the requested names (key naming and evidence only)
	names  []string // requested names = declared fields + automatically required fields
}

var snapCache = map[string]*simpg.Snapshot{}

func prepare(s spec) (*prep, error) {
	d := mkDecl(s)
	nblocks := len(shapes[s.Shape])
	batch := nblocks
	if s.Shape == 1 {
		batch = 2 // two steps: 2 blocks, then 1
	}
	p := &prep{spec: s, decl: d, batch: batch}
	p.conf = world.ConfJSON([]world.Source{{Name: "src1", ChainID: 7, URL: "http://node1", Batch: batch, Conc: 1}}, []*world.Decl{d})
	if len(s.Tup) == 2 {
		var err error
		if p.conf, err = tupleConf(p.conf, s.Tup[0], s.Tup[1]); err != nil {
			return nil, err
		}
	}
	conf, err := world.ParseConf(p.conf)
	if err != nil {
		return nil, err
	}
	key := strings.Join(config.DDL(conf), "\n")
	if sn, ok := snapCache[key]; ok {
		p.snap = sn
	} else {
		p.snap, err = world.InitDB(conf)
		if err != nil {
			return nil, err
		}
		if len(snapCache) > 6000 {
			snapCache = map[string]*simpg.Snapshot{}
		}
		snapCache[key] = p.snap
	}
	for _, bd := range conf.Integrations[0].Block {
		p.names = append(p.names, bd.Name)
	}
	// the plan the integration really asks for (labels and evidence only, never the verdict)
	ig := conf.Integrations[0]
	if dest, err := dig.New(ig.Name, ig.Event, ig.Block, ig.Table, ig.Notification, ig.FilterAGG); err == nil {
		f := dest.Filter()
		p.plan = f.String()
	} else {
		p.plan = glf.New(p.names, nil, nil).String()
	}
	p.chain = mkChain(s, d)
	p.oracle = p.chain
	if len(s.Tup) == 2 {
		p.chain = mkChainT(s, d, true)
	}
	return p, nil
}

// finding is one failing class observed in an execution.
type finding struct {
	Class, Key, Detail string
}

type execOut struct {
	harness  string
	diverged string
	outcome  string   // ok | panic | error:<class> | noconverge
	steps    []string // step outcomes
	stepErr  string
	panics   []string
	methods  []string // distinct fetch methods used, sorted
	nrows    int
	nwant    int
	cells    int
	finds    []finding
	nulled   int  // calls answered null by the environment
	rejected bool // the step that met the null answers failed (and was retried)
	badStep  bool // a per-step oracle failed
}

// callClass names the fetch method a JSON-RPC call belongs to ("" = position bookkeeping: latest / hash).
func callClass(c simeth.Call) string {
	id, _ := c.ID.(string)
	switch c.Method {
	case "eth_getLogs":
		return "logs"
	case "eth_getBlockReceipts":
		return "receipts"
	case "trace_block":
		return "traces"
	case "eth_getBlockByNumber":
		full := false
		if len(c.Params) > 1 {
			full, _ = c.Params[1].(bool)
		}
		switch {
		case strings.HasPrefix(id, "headers-"):
			return "headers"
		case strings.HasPrefix(id, "blocks-") && full:
			return "blocks"
		case strings.HasPrefix(id, "blocks-"):
			return "logs-head" // the header of the range's last block requested together with eth_getLogs
		}
	}
	return ""
}

// callBlock returns the block number a per-block call concerns.
func callBlock(c simeth.Call) (uint64, bool) {
	if len(c.Params) == 0 {
		return 0, false
	}
	h, ok := c.Params[0].(string)
	if !ok || !strings.HasPrefix(h, "0x") {
		return 0, false
	}
	var n uint64
	if _, err := fmt.Sscanf(h[2:], "%x", &n); err != nil {
		return 0, false
	}
	return n, true
}

// fetchMethods classifies the RPC exchanges of a run into the fetch methods used.
func fetchMethods(exs []*simeth.Exchange) []string {
	set := map[string]bool{}
	for _, ex := range exs {
		for _, c := range ex.Calls {
			if k := callClass(c); k != "" && k != "logs-head" {
				set[k] = true
			}
		}
	}
	var out []string
	for k := range set {
		out = append(out, k)
	}
	sort.Strings(out)
	return out
}

// supply: which fetch methods carry a field (JSON-RPC knowledge: block object, receipt object,
// log object, trace object), independent of the planner's tables. nil = not fetched (context value).
var supply = map[string][]string{
	"block_hash": {"headers", "blocks", "receipts", "logs", "traces"}, "block_num": nil, "block_time": {"headers", "blocks"},
	"tx_hash": {"blocks", "receipts", "logs", "traces"}, "tx_idx": nil,
	"tx_signer": {"blocks", "receipts"}, "tx_to": {"blocks", "receipts"}, "tx_type": {"blocks", "receipts"},
	"tx_value": {"blocks"}, "tx_input": {"blocks"}, "tx_nonce": {"blocks"}, "tx_gas_price": {"blocks"},
	"tx_max_priority_fee_per_gas": {"blocks"}, "tx_max_fee_per_gas": {"blocks"},
	"tx_status": {"receipts"}, "tx_gas_used": {"receipts"}, "tx_effective_gas_price": {"receipts"}, "tx_contract_address": {"receipts"},
	"log_idx": {"receipts", "logs"}, "log_addr": {"receipts", "logs"},
	"trace_action_call_type": {"traces"}, "trace_action_idx": {"traces"}, "trace_action_from": {"traces"}, "trace_action_to": {"traces"}, "trace_action_value": {"traces"},
}

func planHas(plan, m string) bool {
	letter := map[string]string{"headers": "h", "blocks": "b", "receipts": "r", "logs": "l", "traces": "t"}[m]
	for _, x := range strings.Split(plan, ",") {
		if x == letter {
			return true
		}
	}
	return false
}

func isDefault(rendered string) bool {
	switch rendered {
	case "NULL", "n:0", "b:", "s:", "i:0", "t:false":
		return true
	}
	return false
}

// notFetchedKey names the class of a field (or of the rows of an item kind) that no fetched response carried.
func notFetchedKey(field string, methods []string, plan string) string {
	called := map[string]bool{}
	for _, m := range methods {
		called[m] = true
	}
	var planned []string
	for _, m := range supply[field] {
		if called[m] {
			return "" // a response that carries the field was fetched
		}
		if planHas(plan, m) {
			planned = append(planned, m)
		}
	}
	if len(planned) > 0 {
		// planned but not dispatched: name the extra method that was dispatched instead
		var took string
		for _, m := range []string{"receipts", "logs", "traces"} {
			if called[m] {
				took = m
			}
		}
		if took == "" {
			took = "none"
		}
		return "plan-drops-method:" + took + "+" + planned[0]
	}
	return "field-not-fetched:" + field
}

func runOne(p *prep, ch *explore.Run, trace, judge bool) (out execOut) {
	d := p.decl
	w := world.New(ch, world.Cfg{Snap: p.snap, Chains: map[string]*simeth.Chain{"node1": p.chain}})
	w.V.TraceOn = trace
	head := p.chain.Head().Num
	var dump []simpg.Row
	var cols []string
	w.Run(func() {
		conf, err := world.ParseConf(p.conf)
		if err != nil {
			w.HarnessErr = err.Error()
			return
		}
		tasks, err := w.LoadTasks(conf)
		if err != nil || len(tasks) != 1 {
			w.HarnessErr = fmt.Sprintf("loadTasks: %v (%d tasks)", err, len(tasks))
			return
		}
		task := tasks[0]
		cols = w.TableCols("t1")
		step := 0
		if na := p.spec.Null; na != nil {
			lo, hi := uint64(1), uint64(p.batch)
			if hi > head {
				hi = head
			}
			w.OnExchange = func(ex *simeth.Exchange) {
				if step != 0 {
					return
				}
				var hit []int
				for i, c := range ex.Calls {
					if callClass(c) != na.Method {
						continue
					}
					if n, ok := callBlock(c); ok && c.Method != "eth_getLogs" && na.Method != "logs-head" {
						if (na.Target == "first" && n != lo) || (na.Target == "last" && n != hi) {
							continue
						}
					}
					hit = append(hit, i)
				}
				if len(hit) == 0 {
					return
				}
				out.nulled += len(hit)
				batch := ex.Batch
				ex.Mutate = func(tree any) any {
					if !batch {
						if m, ok := tree.(map[string]any); ok {
							m["result"] = nil
						}
						return tree
					}
					if a, ok := tree.([]any); ok {
						for _, i := range hit {
							if m, ok := a[i].(map[string]any); ok {
								m["result"] = nil
							}
						}
					}
					return tree
				}
			}
		}
		func() { // the steps run on the main controlled thread: a strictly sequential execution
			for ; step < 8; step++ {
				if w.V.Closing() {
					return
				}
				before, hadBefore := w.Latest("src1", "ig1")
				dumpBefore := world.RenderDump(w.PG.Dump("t1"), cols)
				o, err := task.Step()
				if w.V.Closing() {
					return
				}
				out.steps = append(out.steps, o)
				if len(w.V.Panics) > 0 || o == "panic" {
					out.stepErr = fmt.Sprint(err)
					return
				}
				cur, has := w.Latest("src1", "ig1")
				switch o {
				case "nothing":
					return
				case "ok":
					// per-step oracle: whatever a successful step wrote is the declared projection up to the new position
					if judge && has && cur.Num <= head {
						want := d.Expect(p.oracle, "src1", 7, 1, cur.Num, nil)
						if fs := compare(p, cols, w.PG.Dump("t1"), want, fetchMethods(w.Net.Exchanges())); len(fs) > 0 {
							for _, f := range fs {
								f.Detail = fmt.Sprintf("after step %d (position %d):\n%s", step+1, cur.Num, f.Detail)
								out.finds = append(out.finds, f)
							}
							out.badStep = true
							return
						}
					}
				default:
					out.stepErr = fmt.Sprint(err)
					// a failed step must leave the committed state alone
					dumpAfter := world.RenderDump(w.PG.Dump("t1"), cols)
					if has != hadBefore || (has && cur.Num != before.Num) || strings.Join(dumpAfter, "\n") != strings.Join(dumpBefore, "\n") {
						out.finds = append(out.finds, finding{"state-changed-by-failed-step", "failed-step-changed-state",
							fmt.Sprintf("step %d ended with %q (%v) but the committed state changed (position %d -> %d)\n%s", step+1, o, err, before.Num, cur.Num, world.DiffSorted(dumpAfter, dumpBefore))})
						out.badStep = true
						return
					}
					if !(p.spec.Null != nil && step == 0 && o == "error") {
						return // only the step that met the inconsistent answers may fail; it is retried
					}
					out.rejected = true
				}
			}
		}()
		dump = w.PG.Dump("t1")
	})
	out.harness = w.HarnessErr
	if ch != nil {
		out.diverged = ch.Diverged
	}
	out.panics = w.V.Panics
	out.methods = fetchMethods(w.Net.Exchanges())
	if out.harness != "" {
		return out
	}
	last := ""
	if len(out.steps) > 0 {
		last = out.steps[len(out.steps)-1]
	}
	cur, has := w.Latest("src1", "ig1")
	switch {
	case len(out.panics) > 0 || last == "panic":
		out.outcome = "panic"
		det := strings.Join(out.panics, "\n")
		if det == "" {
			det = out.stepErr
		}
		key := "panic:" + panicSite(det)
		if hasPrefixAny(p.names, "trace_") {
			renamed := true
			for _, f := range d.Fields {
				renamed = renamed && !strings.HasPrefix(f.Column, "trace_")
			}
			for _, n := range p.names { // automatically added trace_action_idx keeps its name
				if n == "trace_action_idx" && !declares(d, n) {
					renamed = false
				}
			}
			if renamed {
				key = "trace-fields-in-renamed-columns:panic" // trace indexing is recognised by COLUMN name prefix, not by field name
			}
		}
		out.finds = append(out.finds, finding{"panic", key, "the row builder panicked:\n" + det})
		return out
	case out.badStep:
		out.outcome = "bad-step"
		return out
	case w.V.Deadlock:
		out.outcome = "deadlock"
		out.finds = append(out.finds, finding{"deadlock", "deadlock", w.V.DeadlockMsg})
		return out
	case last != "nothing":
		out.outcome = "error:" + errClass(out.stepErr)
		out.finds = append(out.finds, finding{"error", "step-error:" + errClass(out.stepErr), fmt.Sprintf("steps %v; last error: %s", out.steps, out.stepErr)})
		return out
	case !has || cur.Num != head:
		out.outcome = "noconverge"
		out.finds = append(out.finds, finding{"noconverge", "noconverge", fmt.Sprintf("steps %v, cursor %d, head %d", out.steps, cur.Num, head)})
		return out
	}
	out.outcome = "ok"
	if !judge {
		out.nrows = len(dump)
		return out
	}
	want := d.Expect(p.oracle, "src1", 7, 1, head, nil)
	out.nrows, out.nwant = len(dump), len(want)
	out.finds = compare(p, cols, dump, want, out.methods)
	out.cells = len(want) * len(cols)
	return out
}

func errClass(s string) string {
	var sb strings.Builder
	digits := false
	for _, r := range s {
		if r >= '0' && r <= '9' {
			if !digits {
				sb.WriteByte('N')
			}
			digits = true
			continue
		}
		digits = false
		sb.WriteRune(r)
	}
	s = sb.String()
	if len(s) > 120 {
		s = s[:120]
	}
	return s
}

// panicSite extracts the first frame inside the code under test.
func panicSite(stack string) string {
	lines := strings.Split(stack, "\n")
	for i, l := range lines {
		if strings.HasPrefix(l, "github.com/indexsupply/shovel/") && !strings.Contains(l, "verif") {
			_ = i
			f := strings.TrimPrefix(l, "github.com/indexsupply/shovel/")
			if k := strings.IndexByte(f, '('); k > 0 && !strings.HasPrefix(f[k:], "(*") {
				f = f[:k]
			}
			if k := strings.LastIndex(f, "(0x"); k > 0 {
				f = f[:k]
			}
			if k := strings.LastIndex(f, "({"); k > 0 {
				f = f[:k]
			}
			return f
		}
	}
	return "?"
}

// binding describes what a column is bound to.
type binding struct {
	input int    // index into spec.Inputs, -1 when a field
	field string // field name
}

func bindings(p *prep) map[string]binding {
	m := map[string]binding{}
	for i, in := range p.decl.Inputs {
		if in.Column != "" {
			m[in.Column] = binding{input: i}
		}
	}
	for _, f := range p.decl.Fields {
		m[f.Column] = binding{input: -1, field: f.Name}
	}
	for _, n := range p.names { // automatically required fields: column = name
		if _, ok := m[n]; !ok {
			m[n] = binding{input: -1, field: n}
		}
	}
	return m
}

// emptyArrayLogs returns the identities (block, tx, log) of matching logs whose selected dynamic array is empty,
// and the column of that array. The property does not define the cell of an array column when there is no element.
func emptyArrayLogs(p *prep) (map[string]bool, string) {
	col := ""
	idx := -1
	for i, in := range p.decl.Inputs {
		if _, arr, k := splitType(in.Type); arr && k == 0 && in.Column != "" {
			col, idx = in.Column, i
		}
	}
	if idx < 0 {
		return nil, ""
	}
	ids := map[string]bool{}
	for _, b := range p.oracle.Blocks {
		for _, t := range b.Txs {
			for _, l := range t.Logs {
				note, _ := l.Note.(*world.LogNote)
				if note == nil || note.Decl != p.decl {
					continue
				}
				if len(note.Vals[idx].([]any)) == 0 {
					ids[fmt.Sprintf("n:%d|i:%d|i:%d", b.Num, t.Idx, l.Idx)] = true
				}
			}
		}
	}
	return ids, col
}

const undefinedCell = "(undefined: empty array)"

// compare is the oracle: the table dump and the declared projection must be equal as multisets of rows,
// cell by cell. Findings are keyed by the class of the column(s) that differ.
func compare(p *prep, cols []string, dump []simpg.Row, want []world.Row, methods []string) []finding {
	emptyIDs, arrCol := emptyArrayLogs(p)
	render := func(get func(c string) any) []string {
		cells := make([]string, len(cols))
		for i, c := range cols {
			cells[i] = world.Render(get(c))
		}
		return cells
	}
	idOf := func(get func(c string) any) string {
		return world.Render(get("block_num")) + "|" + world.Render(get("tx_idx")) + "|" + world.Render(get("log_idx"))
	}
	mk := func(get func(c string) any) []string {
		cells := render(get)
		if arrCol != "" && emptyIDs[idOf(get)] {
			for i, c := range cols {
				if c == arrCol {
					cells[i] = undefinedCell
				}
			}
		}
		return cells
	}
	var got, exp [][]string
	for _, r := range dump {
		r := r
		got = append(got, mk(func(c string) any { return r.Vals[c] }))
	}
	for _, r := range want {
		r := r
		exp = append(exp, mk(func(c string) any { return r[c] }))
	}
	line := func(cells []string) string {
		var sb strings.Builder
		for i, c := range cols {
			if i > 0 {
				sb.WriteByte('|')
			}
			sb.WriteString(c + "=" + cells[i])
		}
		return sb.String()
	}
	lines := func(rs [][]string) []string {
		var o []string
		for _, r := range rs {
			o = append(o, line(r))
		}
		sort.Strings(o)
		return o
	}
	gl, wl := lines(got), lines(exp)
	if strings.Join(gl, "\n") == strings.Join(wl, "\n") {
		return nil
	}
	diff := world.DiffSorted(gl, wl)
	bind := bindings(p)
	var finds []finding
	seen := map[string]bool{}
	add := func(class, key, detail string) {
		if seen[key] {
			return
		}
		seen[key] = true
		finds = append(finds, finding{class, key, detail + "\nplan=" + p.plan + " methods fetched=" + strings.Join(methods, "+") + "\n" + diff})
	}
	kind := p.decl.Kind()
	if len(got) != len(exp) {
		// rows of the indexed item kind are missing or surplus
		item := map[string]string{"log": "log_idx", "trace": "trace_action_idx", "tx": "tx_hash"}[kind]
		key := ""
		if len(got) < len(exp) {
			key = notFetchedKey(item, methods, p.plan)
			if kind == "tx" {
				key = ""
			}
		}
		if key == "" {
			key = fmt.Sprintf("rowcount:%s", kind)
		} else if strings.HasPrefix(key, "field-not-fetched:") {
			key = "field-not-fetched:" + firstField(p, kind) // the rows of this item kind hang on that field: its source was never planned
		}
		add("rowcount", key, fmt.Sprintf("%d rows stored, %d rows in the declared projection (%s indexing)", len(got), len(exp), kind))
		return finds
	}
	// per column: align the rows by their identity columns when those agree, else compare the multisets of values
	idCols := []int{}
	for ci, c := range cols {
		switch c {
		case "block_num", "tx_idx", "log_idx", "abi_idx", "trace_action_idx":
			idCols = append(idCols, ci)
		}
	}
	ident := func(r []string) string {
		var sb strings.Builder
		for _, ci := range idCols {
			sb.WriteString(r[ci])
			sb.WriteByte('|')
		}
		return sb.String()
	}
	sort.SliceStable(got, func(i, j int) bool { return ident(got[i]) < ident(got[j]) })
	sort.SliceStable(exp, func(i, j int) bool { return ident(exp[i]) < ident(exp[j]) })
	aligned := true
	for i := range got {
		if ident(got[i]) != ident(exp[i]) || (i > 0 && ident(got[i]) == ident(got[i-1])) {
			aligned = false
		}
	}
	for ci, c := range cols {
		var a, b []string
		for _, r := range got {
			a = append(a, r[ci])
		}
		for _, r := range exp {
			b = append(b, r[ci])
		}
		if !aligned {
			sort.Strings(a)
			sort.Strings(b)
		}
		if strings.Join(a, "\x00") == strings.Join(b, "\x00") {
			continue
		}
		allDefault := true
		for _, v := range a {
			allDefault = allDefault && isDefault(v)
		}
		bd, ok := bind[c]
		switch {
		case !ok:
			add("mismatch", "column-unbound:"+c, fmt.Sprintf("column %s is bound to nothing but differs", c))
		case bd.input >= 0:
			in := p.spec.Inputs[bd.input]
			where := "data"
			if in.Ix {
				where = "topic"
			}
			base, arr, _ := splitType(in.T)
			tclass := typeClass(base)
			if arr {
				tclass = base + "[]"
			}
			key := fmt.Sprintf("input:%s:%s", where, tclass)
			if in.Ix && unselectedIndexedBefore(p.spec, bd.input) {
				key = "topic-position:unselected-indexed-before-selected"
			}
			add("mismatch", key, fmt.Sprintf("column %s (input p%d %s, %s) differs from the input's value", c, bd.input, in.T, where))
		default:
			key := ""
			if allDefault {
				key = notFetchedKey(bd.field, methods, p.plan)
			}
			if key == "" {
				key = "field:" + bd.field
			}
			add("mismatch", key, fmt.Sprintf("column %s (field %s) differs from the node's value (stored values all zero/empty: %v)", c, bd.field, allDefault))
		}
	}
	if len(finds) == 0 {
		add("mismatch", "row-association", "every column holds the right multiset of values, but combined into the wrong rows")
	}
	return finds
}

// typeClass coarsens an elementary type for violation keys: uint256, uintN, int256, intN, bytesN, or the type itself.
func typeClass(base string) string {
	for _, p := range []string{"uint", "int", "bytes"} {
		if strings.HasPrefix(base, p) && len(base) > len(p) {
			if base[len(p):] == "256" {
				return base
			}
			return p + "N"
		}
	}
	return base
}

func declares(d *world.Decl, field string) bool {
	for _, f := range d.Fields {
		if f.Name == field {
			return true
		}
	}
	return false
}

func firstField(p *prep, kind string) string {
	for _, f := range p.spec.Fields {
		if kind == "trace" && strings.HasPrefix(f, "trace_") {
			return f
		}
	}
	if len(p.spec.Fields) > 0 {
		return p.spec.Fields[0]
	}
	return "-"
}

// unselectedIndexedBefore: is there an indexed input that is NOT selected before input i?
func unselectedIndexedBefore(s spec, i int) bool {
	for j := 0; j < i; j++ {
		if s.Inputs[j].Ix && !s.Inputs[j].Sel {
			return true
		}
	}
	return false
}

// ---- running a list of specs ------------------------------------------------------------------

type runner struct {
	prop    string
	judge   func(s spec) bool // false = ill-formed selection: only "does not crash" is observed
	samples int
}

func (r *runner) exec(c *fw.Ctx, s spec, replay bool) {
	p, err := prepare(s)
	if err != nil {
		if r.judge != nil && !r.judge(s) {
			c.Eval(false)
			c.Outcome("illformed:rejected-by-validation")
			return
		}
		c.HarnessError("prepare %s: %v", s, err)
		return
	}
	var b explore.Bounds
	n := 0
	explore.Explore(b, true, func(run *explore.Run) bool {
		n++
		wellFormed := r.judge == nil || r.judge(s)
		out := runOne(p, run, replay, wellFormed)
		if out.harness != "" {
			c.HarnessError("case %s: %s", s, out.harness)
			return false
		}
		if out.diverged != "" {
			c.HarnessError("HARNESS-NONDETERMINISM case %s: %s", s, out.diverged)
			return false
		}
		if !wellFormed {
			c.Eval(false)
			c.Outcome("illformed:" + out.outcome)
			c.Count("illformed_selections_executed", 1)
			if out.outcome == "panic" {
				c.Count("illformed_selections_that_panic", 1)
			}
			return true
		}
		if s.Null != nil {
			if out.nulled == 0 {
				// the selection never issues a call of that class: the run equals the fault-free case, nothing new was evaluated
				c.Eval(false)
				c.Outcome("null-answer:not-applicable")
				return !c.Expired()
			}
			for i := range out.finds {
				out.finds[i].Key = "null-answer:" + s.Null.Method + ":" + out.finds[i].Key
			}
			c.Count("null_answers_injected", int64(out.nulled))
		}
		c.Eval(out.nwant > 0)
		c.Res.Traces++
		switch {
		case len(out.finds) > 0:
			c.Outcome("VIOLATION:" + out.finds[0].Class)
		case s.Null != nil && out.rejected:
			c.Outcome("null-answer:" + s.Null.Method + ":step-failed-nothing-written-retry-ok")
		case s.Null != nil:
			c.Outcome("null-answer:" + s.Null.Method + ":step-succeeded-rows-correct")
		default:
			c.Outcome("ok:" + p.decl.Kind() + ":plan=" + p.plan)
		}
		for i, in := range s.Inputs {
			if in.Ix && in.Sel && unselectedIndexedBefore(s, i) {
				c.Count("cases_with_unselected_indexed_input_before_a_selected_indexed_one", 1)
				break
			}
		}
		c.Count("rows_compared", int64(out.nwant))
		c.Count("cells_compared", int64(out.cells))
		c.Count("fetch:"+strings.Join(out.methods, "+"), 1)
		for _, f := range out.finds {
			c.Violation(r.prop, f.Class, f.Key, fmt.Sprintf("declaration: %s\nconfig: %s\n%s", s, p.conf, f.Detail), s)
		}
		if !replay && (c.Res.Evaluations%997 == 1 || len(c.Res.Samples) < 3) {
			c.Sample(map[string]any{"case": s, "plan": p.plan, "rpc_methods": out.methods, "rows": out.nrows, "outcome": out.outcome})
		}
		return !c.Expired()
	})
	if n != 1 && c.Res.HarnessErr == "" {
		c.Count("extra_schedules", int64(n-1))
	}
}

func (r *runner) run(c *fw.Ctx, specs []spec) {
	c.Bound("cases", len(specs))
	for _, s := range specs {
		if !c.Mine() {
			continue
		}
		if c.Expired() {
			return
		}
		r.exec(c, s, false)
		if c.Res.HarnessErr != "" {
			return
		}
	}
}

func (r *runner) replay(c *fw.Ctx, raw json.RawMessage) {
	var s spec
	if err := json.Unmarshal(raw, &s); err != nil {
		c.HarnessError("bad case: %v", err)
		return
	}
	r.exec(c, s, true)
}

// ---- small enumeration helpers ----------------------------------------------------------------

// perms returns the distinct permutations of a multiset of strings.
func perms(xs []string) [][]string {
	sorted := append([]string{}, xs...)
	sort.Strings(sorted)
	var out [][]string
	used := make([]bool, len(sorted))
	var cur []string
	var rec func()
	rec = func() {
		if len(cur) == len(sorted) {
			out = append(out, append([]string{}, cur...))
			return
		}
		for i := range sorted {
			if used[i] || (i > 0 && sorted[i] == sorted[i-1] && !used[i-1]) {
				continue
			}
			used[i] = true
			cur = append(cur, sorted[i])
			rec()
			cur = cur[:len(cur)-1]
			used[i] = false
		}
	}
	rec()
	return out
}

// subsets returns all subsets of xs of size 1..max (elements in list order).
func subsets(xs []string, max int) [][]string {
	var out [][]string
	var cur []string
	var rec func(i int)
	rec = func(i int) {
		if len(cur) > 0 {
			out = append(out, append([]string{}, cur...))
		}
		if len(cur) == max {
			return
		}
		for j := i; j < len(xs); j++ {
			cur = append(cur, xs[j])
			rec(j + 1)
			cur = cur[:len(cur)-1]
		}
	}
	rec(0)
	return out
}

func reversed(xs []string) []string {
	out := make([]string, len(xs))
	for i, x := range xs {
		out[len(xs)-1-i] = x
	}
	return out
}

func hasPrefixAny(xs []string, pre string) bool {
	for _, x := range xs {
		if strings.HasPrefix(x, pre) {
			return true
		}
	}
	return false
}
