//go:build verif

// Package rows holds world harnesses (see DESIGN.md §4).
package rows
