// instrument: rewrites copies of the concurrency-relevant source files of the
// repository under test so that every synchronisation operation goes through
// the controlled runtime (verifh/vrt), and emits a `go build -overlay` file.
// The repository itself is never modified.
//
//	instrument -repo /repo -out <dir> [-base overlay.json]
//
// Exit 2 + "HARNESS-LIMIT" when the tree uses a construct it cannot model.
package main

import (
	"bytes"
	"encoding/json"
	"flag"
	"fmt"
	"go/ast"
	"go/importer"
	"go/parser"
	"go/printer"
	"go/token"
	"go/types"
	"io"
	"os"
	"os/exec"
	"path/filepath"
	"sort"
	"strconv"
	"strings"
)

const mod = "github.com/indexsupply/shovel"

// packages whose files are rewritten, in dependency order
var targets = []string{"eth", "jrpc2", "dig", "shovel/config", "shovel"}

// packages in which `sync` is replaced by the shim (types cross these packages' boundaries consistently)
var syncPkgs = map[string]bool{"eth": true, "jrpc2": true, "dig": true, "shovel": true}

// packages in which errgroup is replaced (jrpc2's errgroup lives only inside Client.do: nested helpers, left real)
var egPkgs = map[string]bool{"shovel": true}

// packages (module-relative) in which every statement is preceded by a scheduling point, from the environment
// variable VERIF_STMT_YIELD (comma separated): code without synchronisation operations (HTTP handlers) becomes
// interleavable at statement granularity. Such a package is rewritten like a target and gets the sync shim.
var stmtYield = map[string]bool{}

type overlay struct {
	Replace map[string]string
}

type listPkg struct {
	ImportPath string
	Dir        string
	Export     string
	GoFiles    []string
	Error      *struct{ Err string }
}

func fatal(limit bool, format string, a ...any) {
	if limit {
		fmt.Fprint(os.Stderr, "HARNESS-LIMIT ")
	}
	fmt.Fprintf(os.Stderr, format+"\n", a...)
	os.Exit(2)
}

func main() {
	repo := flag.String("repo", "/repo", "repository root")
	out := flag.String("out", "", "output directory")
	base := flag.String("base", "", "base overlay (mutant layer)")
	flag.Parse()
	if *out == "" {
		fatal(false, "-out required")
	}
	for _, p := range strings.Split(os.Getenv("VERIF_STMT_YIELD"), ",") {
		if p = strings.TrimSpace(p); p == "" {
			continue
		}
		stmtYield[p] = true
		syncPkgs[p] = true
		found := false
		for _, t := range targets {
			found = found || t == p
		}
		if !found {
			targets = append(targets, p)
		}
	}
	baseOv := overlay{Replace: map[string]string{}}
	if *base != "" {
		b, err := os.ReadFile(*base)
		if err != nil {
			fatal(false, "base overlay: %v", err)
		}
		if err := json.Unmarshal(b, &baseOv); err != nil {
			fatal(false, "base overlay: %v", err)
		}
	}
	read := func(path string) ([]byte, error) {
		if r, ok := baseOv.Replace[path]; ok {
			if r == "" {
				return nil, os.ErrNotExist
			}
			return os.ReadFile(r)
		}
		return os.ReadFile(path)
	}

	// export data for every dependency
	args := []string{"list", "-export", "-deps", "-json=ImportPath,Dir,Export,GoFiles,Error"}
	if *base != "" {
		args = append(args, "-overlay", *base)
	}
	for _, t := range targets {
		args = append(args, "./"+t)
	}
	cmd := exec.Command("go", args...)
	cmd.Dir = *repo
	var stderr bytes.Buffer
	cmd.Stderr = &stderr
	ob, err := cmd.Output()
	if err != nil {
		fatal(false, "go list: %v\n%s", err, stderr.String())
	}
	pkgs := map[string]*listPkg{}
	dec := json.NewDecoder(bytes.NewReader(ob))
	for {
		var p listPkg
		if err := dec.Decode(&p); err == io.EOF {
			break
		} else if err != nil {
			fatal(false, "go list output: %v", err)
		}
		pp := p
		pkgs[p.ImportPath] = &pp
	}
	fset := token.NewFileSet()
	imp := importer.ForCompiler(fset, "gc", func(path string) (io.ReadCloser, error) {
		p := pkgs[path]
		if p == nil || p.Export == "" {
			return nil, fmt.Errorf("no export data for %s", path)
		}
		return os.Open(p.Export)
	})

	res := overlay{Replace: map[string]string{}}
	for k, v := range baseOv.Replace {
		res.Replace[k] = v
	}
	sites := map[string]int{}
	for _, t := range targets {
		lp := pkgs[mod+"/"+t]
		if lp == nil {
			fatal(false, "package %s not listed", t)
		}
		var files []*ast.File
		var names []string
		for _, gf := range lp.GoFiles {
			path := filepath.Join(lp.Dir, gf)
			src, err := read(path)
			if err != nil {
				fatal(false, "read %s: %v", path, err)
			}
			f, err := parser.ParseFile(fset, path, src, parser.ParseComments)
			if err != nil {
				fatal(false, "parse %s: %v", path, err)
			}
			files = append(files, f)
			names = append(names, path)
		}
		info := &types.Info{Types: map[ast.Expr]types.TypeAndValue{}, Uses: map[*ast.Ident]types.Object{}, Defs: map[*ast.Ident]types.Object{}}
		conf := types.Config{Importer: imp, Error: func(err error) {}}
		if _, err := conf.Check(mod+"/"+t, fset, files, info); err != nil {
			fatal(false, "type-check %s: %v", t, err)
		}
		for i, f := range files {
			rw := &rewriter{info: info, pkg: t, fset: fset, sites: sites}
			rw.file(f)
			if !rw.changed {
				continue
			}
			// keep only directive comments (//go:embed …): the printer could otherwise
			// misplace free-floating comments around synthesised nodes
			var keep []*ast.CommentGroup
			for _, cg := range f.Comments {
				for _, c := range cg.List {
					if strings.HasPrefix(c.Text, "//go:") {
						keep = append(keep, cg)
						break
					}
				}
			}
			f.Comments = keep
			var buf bytes.Buffer
			if err := printer.Fprint(&buf, fset, f); err != nil {
				fatal(false, "print %s: %v", names[i], err)
			}
			rel, _ := filepath.Rel(*repo, names[i])
			dst := filepath.Join(*out, "src", rel)
			os.MkdirAll(filepath.Dir(dst), 0o755)
			if err := os.WriteFile(dst, buf.Bytes(), 0o644); err != nil {
				fatal(false, "%v", err)
			}
			res.Replace[names[i]] = dst
		}
	}
	// added seams (build tag verif)
	add := func(rel, src string) {
		dst := filepath.Join(*out, "src", rel)
		os.MkdirAll(filepath.Dir(dst), 0o755)
		os.WriteFile(dst, []byte(src), 0o644)
		res.Replace[filepath.Join(*repo, rel)] = dst
	}
	add("shovel/verif_export.go", "//go:build verif\n\npackage shovel\n\n// VerifLoadTasks exposes loadTasks to the verification harness.\nvar VerifLoadTasks = loadTasks\n\n// VerifTaskInfo exposes a task's identity and settings.\nfunc (t *Task) VerifInfo() (src, ig string, start, stop uint64, batch, conc int) {\n\treturn t.srcName, t.destConfig.Name, t.start, t.stop, t.batchSize, t.concurrency\n}\n\n// VerifTasks exposes the manager's current task list.\nfunc (tm *Manager) VerifTasks() []*Task { return tm.tasks }\n")
	b, _ := json.MarshalIndent(res, "", " ")
	if err := os.WriteFile(filepath.Join(*out, "overlay.json"), b, 0o644); err != nil {
		fatal(false, "%v", err)
	}
	var keys []string
	for k := range sites {
		keys = append(keys, k)
	}
	sort.Strings(keys)
	for _, k := range keys {
		fmt.Printf("rewritten %-14s %d\n", k, sites[k])
	}
}

type rewriter struct {
	info    *types.Info
	pkg     string
	fset    *token.FileSet
	changed bool
	needVrt bool
	sites   map[string]int
	tmp     int
}

func (rw *rewriter) note(kind string) {
	rw.changed = true
	rw.sites[kind]++
}

func (rw *rewriter) file(f *ast.File) {
	// imports
	for _, is := range f.Imports {
		p, _ := strconv.Unquote(is.Path.Value)
		switch {
		case p == "sync" && syncPkgs[rw.pkg] && is.Name == nil:
			is.Path.Value = strconv.Quote("verifh/vrt/vsync")
			is.Name = ast.NewIdent("sync")
			rw.note("import-sync")
		case p == "golang.org/x/sync/errgroup" && egPkgs[rw.pkg] && is.Name == nil:
			is.Path.Value = strconv.Quote("verifh/vrt/verrgroup")
			is.Name = ast.NewIdent("errgroup")
			rw.note("import-errgroup")
		}
	}
	for _, d := range f.Decls {
		switch d := d.(type) {
		case *ast.FuncDecl:
			if d.Body != nil {
				d.Body = rw.block(d.Body)
			}
		case *ast.GenDecl:
			for _, sp := range d.Specs {
				if vs, ok := sp.(*ast.ValueSpec); ok {
					for i := range vs.Values {
						vs.Values[i] = rw.expr(vs.Values[i])
					}
				}
			}
		}
	}
	if rw.needVrt {
		// add import vrt "verifh/vrt"
		spec := &ast.ImportSpec{Name: ast.NewIdent("vrt"), Path: &ast.BasicLit{Kind: token.STRING, Value: strconv.Quote("verifh/vrt")}}
		added := false
		for _, d := range f.Decls {
			if gd, ok := d.(*ast.GenDecl); ok && gd.Tok == token.IMPORT {
				gd.Specs = append(gd.Specs, spec)
				if !gd.Lparen.IsValid() {
					gd.Lparen = gd.Pos()
					gd.Rparen = gd.End()
				}
				added = true
				break
			}
		}
		if !added {
			f.Decls = append([]ast.Decl{&ast.GenDecl{Tok: token.IMPORT, Specs: []ast.Spec{spec}}}, f.Decls...)
		}
		f.Imports = append(f.Imports, spec)
	}
}

func (rw *rewriter) vrt(name string) ast.Expr {
	rw.needVrt = true
	return &ast.SelectorExpr{X: ast.NewIdent("vrt"), Sel: ast.NewIdent(name)}
}

func (rw *rewriter) call(name string, args ...ast.Expr) *ast.CallExpr {
	return &ast.CallExpr{Fun: rw.vrt(name), Args: args}
}

func (rw *rewriter) fresh(prefix string) *ast.Ident {
	rw.tmp++
	return ast.NewIdent(fmt.Sprintf("__%s%d", prefix, rw.tmp))
}

func (rw *rewriter) pos(n ast.Node) string { return rw.fset.Position(n.Pos()).String() }

func (rw *rewriter) block(b *ast.BlockStmt) *ast.BlockStmt {
	if b == nil {
		return nil
	}
	b.List = rw.stmts(b.List)
	return b
}

func (rw *rewriter) stmts(list []ast.Stmt) []ast.Stmt {
	var labels []string
	if stmtYield[rw.pkg] {
		for _, s := range list {
			p := rw.fset.Position(s.Pos())
			labels = append(labels, fmt.Sprintf("stmt:%s:%d", filepath.Base(p.Filename), p.Line))
		}
	}
	for i := range list {
		list[i] = rw.stmt(list[i])
	}
	if !stmtYield[rw.pkg] {
		return list
	}
	for _, s := range list {
		switch s.(type) {
		case *ast.CaseClause, *ast.CommClause:
			return list // the clause list of a switch/select: points go inside the clause bodies
		}
	}
	out := make([]ast.Stmt, 0, 2*len(list))
	for i, s := range list {
		out = append(out, &ast.ExprStmt{X: rw.call("Yield", &ast.BasicLit{Kind: token.STRING, Value: strconv.Quote(labels[i])})}, s)
		rw.note("stmt-yield")
	}
	return out
}

func isPkgFunc(info *types.Info, e ast.Expr, pkg, name string) bool {
	sel, ok := e.(*ast.SelectorExpr)
	if !ok || sel.Sel.Name != name {
		return false
	}
	id, ok := sel.X.(*ast.Ident)
	if !ok {
		return false
	}
	pn, ok := info.Uses[id].(*types.PkgName)
	return ok && pn.Imported().Path() == pkg
}

func (rw *rewriter) stmt(s ast.Stmt) ast.Stmt {
	switch s := s.(type) {
	case nil:
		return nil
	case *ast.BlockStmt:
		return rw.block(s)
	case *ast.ExprStmt:
		s.X = rw.expr(s.X)
		return s
	case *ast.SendStmt:
		rw.note("send")
		return &ast.ExprStmt{X: rw.call("Send", rw.expr(s.Chan), rw.expr(s.Value))}
	case *ast.IncDecStmt:
		s.X = rw.expr(s.X)
		return s
	case *ast.AssignStmt:
		if len(s.Lhs) == 2 && len(s.Rhs) == 1 {
			if u, ok := s.Rhs[0].(*ast.UnaryExpr); ok && u.Op == token.ARROW {
				rw.note("recv2")
				s.Rhs[0] = rw.call("Recv2", rw.expr(u.X))
				for i := range s.Lhs {
					s.Lhs[i] = rw.expr(s.Lhs[i])
				}
				return s
			}
		}
		for i := range s.Lhs {
			s.Lhs[i] = rw.expr(s.Lhs[i])
		}
		for i := range s.Rhs {
			s.Rhs[i] = rw.expr(s.Rhs[i])
		}
		return s
	case *ast.GoStmt:
		return rw.goStmt(s)
	case *ast.DeferStmt:
		s.Call = rw.expr(s.Call).(*ast.CallExpr)
		return s
	case *ast.ReturnStmt:
		for i := range s.Results {
			s.Results[i] = rw.expr(s.Results[i])
		}
		return s
	case *ast.BranchStmt, *ast.EmptyStmt:
		return s
	case *ast.DeclStmt:
		if gd, ok := s.Decl.(*ast.GenDecl); ok {
			for _, sp := range gd.Specs {
				if vs, ok := sp.(*ast.ValueSpec); ok {
					if len(vs.Names) == 2 && len(vs.Values) == 1 {
						if u, ok := vs.Values[0].(*ast.UnaryExpr); ok && u.Op == token.ARROW {
							rw.note("recv2")
							vs.Values[0] = rw.call("Recv2", rw.expr(u.X))
							continue
						}
					}
					for i := range vs.Values {
						vs.Values[i] = rw.expr(vs.Values[i])
					}
				}
			}
		}
		return s
	case *ast.LabeledStmt:
		s.Stmt = rw.stmt(s.Stmt)
		return s
	case *ast.IfStmt:
		s.Init = rw.stmt(s.Init)
		s.Cond = rw.expr(s.Cond)
		s.Body = rw.block(s.Body)
		s.Else = rw.stmt(s.Else)
		return s
	case *ast.CaseClause:
		for i := range s.List {
			s.List[i] = rw.expr(s.List[i])
		}
		s.Body = rw.stmts(s.Body)
		return s
	case *ast.SwitchStmt:
		s.Init = rw.stmt(s.Init)
		if s.Tag != nil {
			s.Tag = rw.expr(s.Tag)
		}
		s.Body = rw.block(s.Body)
		return s
	case *ast.TypeSwitchStmt:
		s.Init = rw.stmt(s.Init)
		s.Assign = rw.stmt(s.Assign)
		s.Body = rw.block(s.Body)
		return s
	case *ast.SelectStmt:
		return rw.selectStmt(s)
	case *ast.ForStmt:
		s.Init = rw.stmt(s.Init)
		if s.Cond != nil {
			s.Cond = rw.expr(s.Cond)
		}
		s.Post = rw.stmt(s.Post)
		s.Body = rw.block(s.Body)
		return s
	case *ast.RangeStmt:
		return rw.rangeStmt(s)
	default:
		fatal(true, "%s: statement %T not handled by the instrumenter", rw.pos(s), s)
	}
	return s
}

func (rw *rewriter) goStmt(s *ast.GoStmt) ast.Stmt {
	rw.note("go")
	call := s.Call
	var pre []ast.Stmt
	// bind arguments now (they are evaluated at the go statement)
	if len(call.Args) > 0 {
		var lhs, rhs []ast.Expr
		for i, a := range call.Args {
			id := rw.fresh("a")
			lhs = append(lhs, id)
			rhs = append(rhs, rw.expr(a))
			call.Args[i] = ast.NewIdent(id.Name)
		}
		if call.Ellipsis.IsValid() {
			// f(xs...) keeps the ellipsis on the bound last argument
		}
		pre = append(pre, &ast.AssignStmt{Lhs: lhs, Tok: token.DEFINE, Rhs: rhs})
	}
	switch fn := call.Fun.(type) {
	case *ast.FuncLit:
		fn.Body = rw.block(fn.Body)
	default:
		call.Fun = rw.expr(call.Fun)
	}
	var body ast.Stmt = &ast.ExprStmt{X: call}
	if fl, ok := call.Fun.(*ast.FuncLit); ok && len(call.Args) == 0 && fl.Type.Results == nil {
		// go func(){…}()  →  vrt.Go(func(){…})
		st := &ast.ExprStmt{X: rw.call("Go", fl)}
		if len(pre) == 0 {
			return st
		}
	}
	lit := &ast.FuncLit{Type: &ast.FuncType{Params: &ast.FieldList{}}, Body: &ast.BlockStmt{List: []ast.Stmt{body}}}
	st := &ast.ExprStmt{X: rw.call("Go", lit)}
	if len(pre) == 0 {
		return st
	}
	return &ast.BlockStmt{List: append(pre, st)}
}

func (rw *rewriter) selectStmt(s *ast.SelectStmt) ast.Stmt {
	rw.note("select")
	var pre []ast.Stmt
	var caseExprs []ast.Expr
	var clauses []ast.Stmt
	hasDefault := false
	idx := 0
	for _, c := range s.Body.List {
		cc := c.(*ast.CommClause)
		body := rw.stmts(cc.Body)
		if cc.Comm == nil {
			hasDefault = true
			clauses = append(clauses, &ast.CaseClause{List: nil, Body: body})
			continue
		}
		cid := rw.fresh("c")
		var mk ast.Expr
		var bind []ast.Stmt
		switch comm := cc.Comm.(type) {
		case *ast.SendStmt:
			mk = rw.call("NewSendCase", rw.expr(comm.Chan), rw.expr(comm.Value))
		case *ast.ExprStmt:
			u, ok := comm.X.(*ast.UnaryExpr)
			if !ok || u.Op != token.ARROW {
				fatal(true, "%s: select case not understood", rw.pos(comm))
			}
			mk = rw.call("NewRecvCase", rw.expr(u.X))
		case *ast.AssignStmt:
			u, ok := comm.Rhs[0].(*ast.UnaryExpr)
			if !ok || u.Op != token.ARROW {
				fatal(true, "%s: select case not understood", rw.pos(comm))
			}
			mk = rw.call("NewRecvCase", rw.expr(u.X))
			val := &ast.CallExpr{Fun: &ast.SelectorExpr{X: ast.NewIdent(cid.Name), Sel: ast.NewIdent("Value")}}
			lhs := []ast.Expr{}
			for _, l := range comm.Lhs {
				lhs = append(lhs, rw.expr(l))
			}
			if len(lhs) == 1 {
				lhs = append(lhs, ast.NewIdent("_"))
			}
			bind = append(bind, &ast.AssignStmt{Lhs: lhs, Tok: comm.Tok, Rhs: []ast.Expr{val}})
			if comm.Tok == token.DEFINE {
				// silence "declared and not used"
				for _, l := range lhs {
					if id, ok := l.(*ast.Ident); ok && id.Name != "_" {
						bind = append(bind, &ast.AssignStmt{Lhs: []ast.Expr{ast.NewIdent("_")}, Tok: token.ASSIGN, Rhs: []ast.Expr{ast.NewIdent(id.Name)}})
					}
				}
			}
		default:
			fatal(true, "%s: select case %T", rw.pos(cc), cc.Comm)
		}
		pre = append(pre, &ast.AssignStmt{Lhs: []ast.Expr{cid}, Tok: token.DEFINE, Rhs: []ast.Expr{mk}})
		caseExprs = append(caseExprs, ast.NewIdent(cid.Name))
		clauses = append(clauses, &ast.CaseClause{
			List: []ast.Expr{&ast.BasicLit{Kind: token.INT, Value: strconv.Itoa(idx)}},
			Body: append(bind, body...),
		})
		idx++
	}
	def := "false"
	if hasDefault {
		def = "true"
	}
	args := append([]ast.Expr{ast.NewIdent(def)}, caseExprs...)
	sw := &ast.SwitchStmt{Tag: rw.call("Select", args...), Body: &ast.BlockStmt{List: clauses}}
	return &ast.BlockStmt{List: append(pre, sw)}
}

func (rw *rewriter) rangeStmt(s *ast.RangeStmt) ast.Stmt {
	tv, ok := rw.info.Types[s.X]
	var under types.Type
	if ok && tv.Type != nil {
		under = tv.Type.Underlying()
	}
	x := rw.expr(s.X)
	body := rw.block(s.Body)
	switch under.(type) {
	case *types.Chan:
		rw.note("range-chan")
		okID := rw.fresh("ok")
		var v ast.Expr = ast.NewIdent("_")
		tok := token.DEFINE
		if s.Key != nil {
			v = s.Key
			tok = s.Tok
		}
		recv := &ast.AssignStmt{Lhs: []ast.Expr{v, okID}, Tok: token.DEFINE, Rhs: []ast.Expr{rw.call("Recv2", x)}}
		if s.Key != nil && tok == token.ASSIGN {
			// v already declared: receive into temporaries
			tmp := rw.fresh("v")
			recv = &ast.AssignStmt{Lhs: []ast.Expr{tmp, okID}, Tok: token.DEFINE, Rhs: []ast.Expr{rw.call("Recv2", x)}}
			brk := &ast.IfStmt{Cond: &ast.UnaryExpr{Op: token.NOT, X: ast.NewIdent(okID.Name)}, Body: &ast.BlockStmt{List: []ast.Stmt{&ast.BranchStmt{Tok: token.BREAK}}}}
			asg := &ast.AssignStmt{Lhs: []ast.Expr{s.Key}, Tok: token.ASSIGN, Rhs: []ast.Expr{ast.NewIdent(tmp.Name)}}
			body.List = append([]ast.Stmt{recv, brk, asg}, body.List...)
			return &ast.ForStmt{Body: body}
		}
		brk := &ast.IfStmt{Cond: &ast.UnaryExpr{Op: token.NOT, X: ast.NewIdent(okID.Name)}, Body: &ast.BlockStmt{List: []ast.Stmt{&ast.BranchStmt{Tok: token.BREAK}}}}
		body.List = append([]ast.Stmt{recv, brk}, body.List...)
		return &ast.ForStmt{Body: body}
	case *types.Map:
		rw.note("range-map")
		// for k, v := range m {B}  →  { __m := m; for _, k := range vrt.SortedKeys(__m) { v, __ok := __m[k]; if !__ok {continue}; B } }
		m := rw.fresh("m")
		pre := &ast.AssignStmt{Lhs: []ast.Expr{m}, Tok: token.DEFINE, Rhs: []ast.Expr{x}}
		keyIsBlank := s.Key == nil || isBlank(s.Key)
		var k ast.Expr
		var head []ast.Stmt
		ktok := s.Tok
		if keyIsBlank {
			k = rw.fresh("k")
			ktok = token.DEFINE
		} else {
			k = s.Key
		}
		if ktok == token.ASSIGN {
			// key assigned to an existing variable: iterate with a temporary
			tk := rw.fresh("k")
			head = append(head, &ast.AssignStmt{Lhs: []ast.Expr{s.Key}, Tok: token.ASSIGN, Rhs: []ast.Expr{ast.NewIdent(tk.Name)}})
			k = tk
		}
		kname := k.(*ast.Ident).Name
		okID := rw.fresh("ok")
		idxExpr := &ast.IndexExpr{X: ast.NewIdent(m.Name), Index: ast.NewIdent(kname)}
		cont := &ast.IfStmt{Cond: &ast.UnaryExpr{Op: token.NOT, X: ast.NewIdent(okID.Name)}, Body: &ast.BlockStmt{List: []ast.Stmt{&ast.BranchStmt{Tok: token.CONTINUE}}}}
		if s.Value != nil && !isBlank(s.Value) {
			if s.Tok == token.DEFINE {
				head = append(head, &ast.AssignStmt{Lhs: []ast.Expr{s.Value, okID}, Tok: token.DEFINE, Rhs: []ast.Expr{idxExpr}}, cont)
			} else {
				tv := rw.fresh("v")
				head = append(head, &ast.AssignStmt{Lhs: []ast.Expr{tv, okID}, Tok: token.DEFINE, Rhs: []ast.Expr{idxExpr}}, cont,
					&ast.AssignStmt{Lhs: []ast.Expr{s.Value}, Tok: token.ASSIGN, Rhs: []ast.Expr{ast.NewIdent(tv.Name)}})
			}
		} else {
			head = append(head, &ast.AssignStmt{Lhs: []ast.Expr{ast.NewIdent("_"), okID}, Tok: token.DEFINE, Rhs: []ast.Expr{idxExpr}}, cont)
		}
		body.List = append(head, body.List...)
		loop := &ast.RangeStmt{Key: ast.NewIdent("_"), Value: ast.NewIdent(kname), Tok: token.DEFINE, X: rw.call("SortedKeys", ast.NewIdent(m.Name)), Body: body}
		return &ast.BlockStmt{List: []ast.Stmt{pre, loop}}
	}
	s.X = x
	s.Body = body
	return s
}

func isBlank(e ast.Expr) bool {
	id, ok := e.(*ast.Ident)
	return ok && id.Name == "_"
}

func (rw *rewriter) exprs(l []ast.Expr) {
	for i := range l {
		l[i] = rw.expr(l[i])
	}
}

func (rw *rewriter) expr(e ast.Expr) ast.Expr {
	switch e := e.(type) {
	case nil:
		return nil
	case *ast.Ident, *ast.BasicLit, *ast.BadExpr:
		return e
	case *ast.FuncLit:
		e.Body = rw.block(e.Body)
		return e
	case *ast.CompositeLit:
		rw.exprs(e.Elts)
		return e
	case *ast.ParenExpr:
		e.X = rw.expr(e.X)
		return e
	case *ast.SelectorExpr:
		e.X = rw.expr(e.X)
		return e
	case *ast.IndexExpr:
		e.X = rw.expr(e.X)
		e.Index = rw.expr(e.Index)
		return e
	case *ast.IndexListExpr:
		e.X = rw.expr(e.X)
		return e
	case *ast.SliceExpr:
		e.X = rw.expr(e.X)
		e.Low, e.High, e.Max = rw.expr(e.Low), rw.expr(e.High), rw.expr(e.Max)
		return e
	case *ast.TypeAssertExpr:
		e.X = rw.expr(e.X)
		return e
	case *ast.CallExpr:
		// close(ch)
		if id, ok := e.Fun.(*ast.Ident); ok && id.Name == "close" && len(e.Args) == 1 {
			if _, isBuiltin := rw.info.Uses[id].(*types.Builtin); isBuiltin {
				rw.note("close")
				return rw.call("Close", rw.expr(e.Args[0]))
			}
		}
		switch {
		case isPkgFunc(rw.info, e.Fun, "time", "Sleep"):
			rw.note("sleep")
			rw.exprs(e.Args)
			return rw.call("Sleep", e.Args...)
		case isPkgFunc(rw.info, e.Fun, "time", "NewTicker"):
			rw.note("ticker")
			rw.exprs(e.Args)
			return rw.call("NewTicker", e.Args...)
		case isPkgFunc(rw.info, e.Fun, "time", "After"), isPkgFunc(rw.info, e.Fun, "time", "NewTimer"),
			isPkgFunc(rw.info, e.Fun, "time", "AfterFunc"), isPkgFunc(rw.info, e.Fun, "time", "Tick"):
			if syncPkgs[rw.pkg] {
				fatal(true, "%s: timer construct %s is not modelled", rw.pos(e), exprString(e.Fun))
			}
		}
		e.Fun = rw.expr(e.Fun)
		rw.exprs(e.Args)
		return e
	case *ast.StarExpr:
		e.X = rw.expr(e.X)
		return e
	case *ast.UnaryExpr:
		if e.Op == token.ARROW {
			rw.note("recv")
			return rw.call("Recv", rw.expr(e.X))
		}
		e.X = rw.expr(e.X)
		return e
	case *ast.BinaryExpr:
		e.X, e.Y = rw.expr(e.X), rw.expr(e.Y)
		return e
	case *ast.KeyValueExpr:
		e.Key, e.Value = rw.expr(e.Key), rw.expr(e.Value)
		return e
	case *ast.ArrayType, *ast.StructType, *ast.FuncType, *ast.InterfaceType, *ast.MapType, *ast.ChanType, *ast.Ellipsis:
		return e
	default:
		fatal(true, "%s: expression %T not handled by the instrumenter", rw.pos(e), e)
	}
	return e
}

func exprString(e ast.Expr) string {
	var b strings.Builder
	printer.Fprint(&b, token.NewFileSet(), e)
	return b.String()
}
