//go:build !verif && (!only || only_c07)

package main

import _ "verifh/checks/c07"
