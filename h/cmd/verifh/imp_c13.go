//go:build !verif && (!only || only_c13)

package main

import _ "verifh/checks/c13"
