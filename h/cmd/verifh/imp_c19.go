//go:build verif && (!only || only_c19)

package main

import _ "verifh/checks/c19"
