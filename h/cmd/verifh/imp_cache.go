//go:build verif && (!only || only_cache)

package main

import _ "verifh/checks/cache"
