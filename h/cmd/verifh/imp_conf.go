//go:build verif && (!only || only_conf)

package main

import _ "verifh/checks/conf"
