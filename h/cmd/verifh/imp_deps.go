//go:build verif && (!only || only_deps)

package main

import _ "verifh/checks/deps"
