//go:build verif && (!only || only_mgr)

package main

import _ "verifh/checks/mgr"
