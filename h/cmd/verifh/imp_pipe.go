//go:build verif && (!only || only_pipe)

package main

import _ "verifh/checks/pipe"
