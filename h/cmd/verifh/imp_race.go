//go:build verif && (!only || only_race)

package main

import _ "verifh/checks/race"
