//go:build verif && (!only || only_rangefault)

package main

import _ "verifh/checks/rangefault"
