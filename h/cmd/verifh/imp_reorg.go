//go:build verif && (!only || only_reorg)

package main

import _ "verifh/checks/reorg"
