//go:build verif && (!only || only_rows)

package main

import _ "verifh/checks/rows"
