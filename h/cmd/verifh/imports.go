//go:build !verif

package main

// Pure harnesses (no scheduler, no overlay needed): compiled into every binary.
import (
	_ "verifh/checks/c07"
	_ "verifh/checks/c13"
	_ "verifh/checks/c19"
)
