// verifh: orchestrator + worker for all checks.
//
//	verifh run <ID> <quick|thorough>       orchestrate shards, merge, verdict, evidence
//	verifh worker <ID> <tier> <i> <n> <out>
//	verifh replay <ID> <file>              re-execute one recorded case, print its key (exit 1 if it fails again)
//	verifh list
package main

import (
	"encoding/json"
	"fmt"
	"os"
	"os/exec"
	"path/filepath"
	"regexp"
	"runtime"
	"runtime/debug"
	"runtime/pprof"
	"sort"
	"strconv"
	"strings"
	"sync"
	"time"

	"verifh/checks"
	"verifh/fw"
)

func verifDir() string {
	if d := os.Getenv("VERIF_DIR"); d != "" {
		return d
	}
	return "/verif"
}

func evidenceDir() string {
	if d := os.Getenv("VERIF_EVIDENCE_DIR"); d != "" {
		return d
	}
	return filepath.Join(verifDir(), "evidence")
}

func replayDir() string {
	if d := os.Getenv("VERIF_EVIDENCE_DIR"); d != "" {
		return filepath.Join(d, "replays")
	}
	return filepath.Join(verifDir(), "replays")
}

func seed() int64 {
	n, _ := strconv.ParseInt(os.Getenv("VERIF_SEED"), 10, 64)
	return n
}

func main() {
	if len(os.Args) < 2 {
		fmt.Fprintln(os.Stderr, "usage: verifh run|worker|replay|list …")
		os.Exit(2)
	}
	switch os.Args[1] {
	case "list":
		for _, id := range checks.IDs() {
			fmt.Println(id)
		}
	case "worker":
		worker(os.Args[2:])
	case "replay":
		os.Exit(replay(os.Args[2], os.Args[3], true))
	case "run":
		os.Exit(run(os.Args[2], os.Args[3]))
	default:
		fmt.Fprintln(os.Stderr, "unknown command")
		os.Exit(2)
	}
}

func worker(a []string) {
	id, tier := a[0], a[1]
	i, _ := strconv.Atoi(a[2])
	n, _ := strconv.Atoi(a[3])
	out := a[4]
	ck := checks.Get(id)
	if ck == nil {
		fmt.Fprintln(os.Stderr, "no such check in this binary:", id)
		os.Exit(2)
	}
	debug.SetMemoryLimit(3 << 30)
	// hard guard: a worker must never drive the sandbox into the kernel's OOM killer
	go func() {
		for {
			time.Sleep(300 * time.Millisecond)
			var ms runtime.MemStats
			runtime.ReadMemStats(&ms)
			if ms.HeapAlloc > 4<<30 {
				buf := make([]byte, 1<<16)
				n := runtime.Stack(buf, true)
				fmt.Fprintf(os.Stderr, "HARNESS-LIMIT worker heap %d MiB exceeds the 4 GiB guard\n%s\n", ms.HeapAlloc>>20, buf[:n])
				os.Exit(4)
			}
		}
	}()
	if pf := os.Getenv("VERIF_PPROF"); pf != "" && i == 0 {
		f, _ := os.Create(pf)
		pprof.StartCPUProfile(f)
		defer pprof.StopCPUProfile()
	}
	c := fw.NewCtx(id, tier, seed(), i, n, ck.Budget[tier])
	if ck.CaseLimit > 0 {
		c.StartWatchdog(ck.CaseLimit, out)
	}
	if ck.Crumbs {
		if err := fw.OpenCrumb(out + ".crumb"); err != nil {
			fmt.Fprintln(os.Stderr, "crumb:", err)
			os.Exit(2)
		}
	}
	func() {
		defer func() {
			if r := recover(); r != nil {
				c.HarnessError("worker panic: %v\n%s", r, debug.Stack())
			}
		}()
		ck.Run(c)
	}()
	b, _ := json.Marshal(c.Finish())
	if err := os.WriteFile(out, b, 0o644); err != nil {
		fmt.Fprintln(os.Stderr, err)
		os.Exit(2)
	}
}

// runShard runs one worker shard in a child process and returns its result (nil and the log tail if it failed).
func runShard(self string, ck *checks.Check, id, tier string, i, n int, tmp, tag string) (*fw.Result, string) {
	out := filepath.Join(tmp, fmt.Sprintf("%s%d.json", tag, i))
	cmd := exec.Command(self, "worker", id, tier, strconv.Itoa(i), strconv.Itoa(n), out)
	cmd.Env = append(os.Environ(), "GOMAXPROCS=2", "VERIF_WORKER=1", "GOGC=400")
	if ck.Race {
		cmd.Env = append(cmd.Env, "GORACE=halt_on_error=0 exitcode=0 atexit_sleep_ms=0 log_path="+filepath.Join(tmp, fmt.Sprintf("race%s%d", tag, i)))
	}
	logf := filepath.Join(tmp, fmt.Sprintf("%s%d.log", tag, i))
	lf, _ := os.Create(logf)
	cmd.Stdout, cmd.Stderr = lf, lf
	err := cmd.Run()
	lf.Close()
	b, rerr := os.ReadFile(out)
	var r fw.Result
	if err != nil || rerr != nil || json.Unmarshal(b, &r) != nil {
		lb, _ := os.ReadFile(logf)
		tail := string(lb)
		if len(tail) > 4000 {
			tail = tail[len(tail)-4000:]
		}
		return nil, fmt.Sprintf("worker %d failed: %v\n%s", i, err, tail)
	}
	return &r, ""
}

func replay(id, file string, verbose bool) int {
	ck := checks.Get(id)
	if ck == nil || ck.Replay == nil {
		fmt.Fprintln(os.Stderr, "no replay for", id)
		return 2
	}
	b, err := os.ReadFile(file)
	if err != nil {
		fmt.Fprintln(os.Stderr, err)
		return 2
	}
	var v fw.Violation
	if err := json.Unmarshal(b, &v); err != nil {
		fmt.Fprintln(os.Stderr, err)
		return 2
	}
	if v.History != nil {
		// the case fails only after the cases that precede it in its worker shard: re-run that shard
		self, _ := os.Executable()
		tmp, err := os.MkdirTemp("", "verifh-hist-")
		if err != nil {
			fmt.Fprintln(os.Stderr, err)
			return 2
		}
		defer os.RemoveAll(tmp)
		r, tail := runShard(self, ck, id, v.History.Tier, v.History.Shard, v.History.NShards, tmp, "h")
		if r == nil {
			fmt.Println("HARNESS-ERROR history replay: worker failed\n" + tail)
			return 2
		}
		if r.VioCount[v.Key] > 0 {
			fmt.Printf("REPLAY-VIOLATION key=%s class=%s (history: shard %d/%d of tier %s)\n", v.Key, v.Class, v.History.Shard, v.History.NShards, v.History.Tier)
			return 1
		}
		fmt.Println("REPLAY-OK no violation")
		return 0
	}
	c := fw.NewCtx(id, "replay", seed(), 0, 1, 0)
	if ck.CaseLimit > 0 && v.Class == "unbounded" {
		go func() {
			time.Sleep(ck.CaseLimit)
			fmt.Printf("REPLAY-VIOLATION key=%s class=unbounded\n", v.Key)
			os.Exit(1)
		}()
	}
	func() {
		defer func() {
			if r := recover(); r != nil {
				c.HarnessError("replay panic: %v\n%s", r, debug.Stack())
			}
		}()
		ck.Replay(c, v.Case)
	}()
	if c.Res.HarnessErr != "" {
		fmt.Println("HARNESS-ERROR", c.Res.HarnessErr)
		return 2
	}
	if len(c.Res.Violations) == 0 {
		fmt.Println("REPLAY-OK no violation")
		return 0
	}
	for _, x := range c.Res.Violations {
		fmt.Printf("REPLAY-VIOLATION key=%s class=%s\n", x.Key, x.Class)
		if verbose {
			fmt.Println(x.Detail)
		}
	}
	return 1
}

func run(id, tier string) int {
	ck := checks.Get(id)
	if ck == nil {
		fmt.Fprintln(os.Stderr, "no such check in this binary:", id)
		return 2
	}
	t0 := time.Now()
	n := ck.Shards
	if n == 0 {
		n = runtime.NumCPU()
	}
	if s := os.Getenv("VERIF_SHARDS"); s != "" {
		n, _ = strconv.Atoi(s)
	}
	tmp, err := os.MkdirTemp("", "verifh-"+id+"-")
	if err != nil {
		fmt.Fprintln(os.Stderr, err)
		return 2
	}
	defer os.RemoveAll(tmp)
	self, _ := os.Executable()
	results := make([]*fw.Result, n)
	var wg sync.WaitGroup
	var mu sync.Mutex
	var harnessErr string
	for i := 0; i < n; i++ {
		i := i
		wg.Add(1)
		go func() {
			defer wg.Done()
			out := filepath.Join(tmp, fmt.Sprintf("r%d.json", i))
			cmd := exec.Command(self, "worker", id, tier, strconv.Itoa(i), strconv.Itoa(n), out)
			cmd.Env = append(os.Environ(), "GOMAXPROCS=2", "VERIF_WORKER=1", "GOGC=400")
			if ck.Race {
				cmd.Env = append(cmd.Env, "GORACE=halt_on_error=0 exitcode=0 atexit_sleep_ms=0 log_path="+filepath.Join(tmp, fmt.Sprintf("race%d", i)))
			}
			logf := filepath.Join(tmp, fmt.Sprintf("w%d.log", i))
			lf, _ := os.Create(logf)
			cmd.Stdout, cmd.Stderr = lf, lf
			err := cmd.Run()
			lf.Close()
			b, rerr := os.ReadFile(out)
			var r fw.Result
			if cr := fw.ReadCrumb(out + ".crumb"); ck.Crumbs && cr != nil && (err != nil || rerr != nil) {
				// the worker died (fatal runtime error) while executing the case in the breadcrumb: a crash of the code under test
				lb, _ := os.ReadFile(logf)
				r = fw.Result{Check: id, Shard: i, Outcomes: map[string]int64{}, Counters: map[string]int64{}, VioCount: map[string]int64{}, Bounds: map[string]any{}}
				r.Caps = []string{"worker-died"}
				r.Violations = []fw.Violation{{Property: id, Class: "crash", Key: "crash", Detail: "worker process died while executing this case:\n" + tailStr(string(lb), 1500), Case: json.RawMessage(cr)}}
				r.VioCount["crash"] = 1
				results[i] = &r
				return
			}
			if err != nil || rerr != nil || json.Unmarshal(b, &r) != nil {
				lb, _ := os.ReadFile(logf)
				tail := string(lb)
				if len(tail) > 4000 {
					tail = tail[len(tail)-4000:]
				}
				mu.Lock()
				if harnessErr == "" {
					harnessErr = fmt.Sprintf("worker %d failed: %v\n%s", i, err, tail)
				}
				mu.Unlock()
				return
			}
			results[i] = &r
		}()
	}
	wg.Wait()
	if harnessErr != "" {
		fmt.Println("HARNESS-ERROR", harnessErr)
		return 2
	}
	m := fw.Merge(results)
	if m.HarnessErr != "" {
		fmt.Println("HARNESS-ERROR", m.HarnessErr)
		return 2
	}

	// one representative per key; confirm each 5x by replay
	findings, err := fw.LoadFindings(filepath.Join(verifDir(), "known_findings.json"))
	if err != nil {
		fmt.Println("HARNESS-ERROR known_findings.json:", err)
		return 2
	}
	byKey := map[string]fw.Violation{}
	var keys []string
	for _, v := range m.Violations {
		if _, ok := byKey[v.Key]; !ok {
			byKey[v.Key] = v
			keys = append(keys, v.Key)
		}
	}
	sort.Strings(keys)
	os.MkdirAll(replayDir(), 0o755)
	unknown, known := []string{}, []string{}
	knownSeen := map[int]bool{}
	const maxReported = 8
	suppressed := 0
	var nondet []string
	histTried := 0
keyLoop:
	for _, k := range keys {
		v := byKey[k]
		if len(unknown) >= maxReported {
			isKnown := false
			for _, f := range findings {
				if f.Status == "known" && f.Property == id && f.KeyRegex != "" {
					if ok, _ := regexp.MatchString("^(?:"+f.KeyRegex+")$", k); ok {
						isKnown = true
					}
				}
			}
			if !isKnown {
				suppressed++
				unknown = append(unknown, k)
				continue
			}
		}
		file := filepath.Join(replayDir(), fmt.Sprintf("%s-%016x.json", id, fw.Hash64(k)))
		b, _ := json.MarshalIndent(v, "", " ")
		os.WriteFile(file, b, 0o644)
		if ck.Replay != nil {
			for r := 0; r < 5; r++ {
				rcmd := exec.Command(self, "replay", id, file)
				if ck.Race {
					rcmd.Env = append(os.Environ(), "GORACE=halt_on_error=0 exitcode=0 atexit_sleep_ms=0 log_path="+filepath.Join(tmp, fmt.Sprintf("replay%d", r)))
				}
				out, rerr := rcmd.CombinedOutput()
				crashed := false
				if ee, ok := rerr.(*exec.ExitError); ok && ee.ExitCode() != 1 && ee.ExitCode() != 2 {
					crashed = true // the replay process itself died: the crash reproduces
				}
				if rerr != nil && (strings.Contains(string(out), "fatal error:") || strings.Contains(string(out), "\npanic:")) && !strings.Contains(string(out), "HARNESS-ERROR") {
					crashed = true // Go runtime fatal errors (out of memory, …) exit with status 2
				}
				if ck.ReplayLoose {
					// race reports are hard evidence on their own (the detector has no false positives) but it does
					// not promise to report a given race in every run (shadow-cell eviction): replays are informative only
					if strings.Contains(string(out), "REPLAY-VIOLATION key=") {
						break
					}
					continue
				}
				if !strings.Contains(string(out), "REPLAY-VIOLATION key="+k+" ") && !(k == "crash" && crashed) {
					// not believed: a failure that does not reproduce is a problem of the machinery (or of a
					// wall-clock guard under load), never a finding; other keys are still judged
					if r == 0 && histTried < 3 && v.NShards == n {
						// the case alone passes in a fresh process: does the shard that found it fail again, every time?
						// (state kept by the code under test between cases: package-level caches, pools, memos)
						histTried++
						ok := true
						for h := 0; h < 2 && ok; h++ {
							hr, _ := runShard(self, ck, id, tier, v.Shard, n, tmp, fmt.Sprintf("hist%d-%d-", histTried, h))
							ok = hr != nil && hr.VioCount[k] > 0
						}
						if ok {
							v.History = &fw.History{Tier: tier, Shard: v.Shard, NShards: n}
							v.Class += "+history"
							v.Detail = "fails only after the cases that precede it in worker shard " + strconv.Itoa(v.Shard) + "/" + strconv.Itoa(n) + " (reproduced by re-running that shard twice; the case alone passes in a fresh process): the code under test carries state from one case to the next.\n" + v.Detail
							byKey[k] = v
							b, _ := json.MarshalIndent(v, "", " ")
							os.WriteFile(file, b, 0o644)
							break
						}
					}
					fmt.Printf("HARNESS-NONDETERMINISM property=%s key=%s replay %d did not reproduce:\n%s\n", id, k, r, tailStr(string(out), 1500))
					nondet = append(nondet, k)
					os.Remove(file)
					continue keyLoop
				}
			}
		}
		idx := -1
		for i, f := range findings {
			if f.Status != "known" || f.Property != id || f.KeyRegex == "" {
				continue
			}
			if ok, _ := regexp.MatchString("^(?:"+f.KeyRegex+")$", k); ok {
				idx = i
				break
			}
		}
		if idx >= 0 {
			knownSeen[idx] = true
			known = append(known, k)
			os.Remove(file)
		} else {
			unknown = append(unknown, k)
			fmt.Printf("VIOLATION property=%s replay=%s\n", id, file)
			fmt.Printf("  key=%s class=%s cases=%d\n  %s\n", k, v.Class, m.VioCount[k], tailStr(v.Detail, 1200))
		}
	}
	if suppressed > 0 {
		fmt.Printf("  … and %d more distinct failing keys (not individually replayed)\n", suppressed)
	}
	for i, f := range findings {
		if knownSeen[i] {
			fmt.Printf("KNOWN-FINDING: property=%s %s\n", id, f.What)
		}
	}

	// non-vacuity floor
	if m.Exhaustive && ck.MinNontrivial > 0 && m.Nontrivial < ck.MinNontrivial {
		fmt.Printf("HARNESS-ERROR non-vacuity floor not met: nontrivial=%d < %d\n", m.Nontrivial, ck.MinNontrivial)
		return 2
	}

	// evidence
	cov := map[string]any{
		"evaluations":             m.Evaluations,
		"distinct_nontrivial":     m.Nontrivial,
		"rule":                    ck.Rule,
		"samples":                 m.Samples,
		"exhaustive":              m.Exhaustive,
		"caps_hit":                append([]string{}, m.Caps...),
		"bounds":                  m.Bounds,
		"outcomes":                m.Outcomes,
		"distinct_outcomes":       len(m.Outcomes),
		"counters":                m.Counters,
		"shards":                  m.Shards,
		"known_findings_observed": known,
		"violation_keys":          unknown,
		"not_reproduced_keys":     nondet,
	}
	if ck.Level == "model_checking" {
		cov["states"] = m.States
		cov["transitions"] = m.Transitions
		cov["traces_validated_against_impl"] = m.Traces
	}
	if ck.Extra != nil {
		ck.Extra(m, cov)
	}
	if len(m.Samples) == 0 {
		cov["samples"] = []any{"(no sample recorded)"}
	}
	ev := map[string]any{
		"property_id": id,
		"tier":        tier,
		"seed":        seed(),
		"level":       ck.Level,
		"coverage":    cov,
		"assumptions": ck.Assumptions,
		"wall_s":      time.Since(t0).Seconds(),
		"violations":  len(unknown),
	}
	os.MkdirAll(evidenceDir(), 0o755)
	b, _ := json.MarshalIndent(ev, "", " ")
	if err := os.WriteFile(filepath.Join(evidenceDir(), id+".json"), b, 0o644); err != nil {
		fmt.Println("HARNESS-ERROR writing evidence:", err)
		return 2
	}
	fmt.Printf("%s %s: evaluations=%d nontrivial=%d outcomes=%d exhaustive=%v caps=%v known=%d violations=%d wall=%.1fs\n",
		id, tier, m.Evaluations, m.Nontrivial, len(m.Outcomes), m.Exhaustive, m.Caps, len(known), len(unknown), time.Since(t0).Seconds())
	if len(unknown) > 0 {
		return 1
	}
	if len(nondet) > 0 {
		return 3
	}
	return 0
}

func tailStr(s string, n int) string {
	if len(s) > n {
		return s[:n] + "…"
	}
	return s
}
