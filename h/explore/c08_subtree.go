package explore

import "verifh/vrt"

// Sub-tree exploration (added for check C08): lets a check shard ONE job's schedule tree
// across workers. Expand lists the children of an executed run exactly as Explore does;
// ExploreFrom explores the sub-tree rooted at one such child (the child included).
// Explore(b, l, exec) visits the same executions as: run the root, then ExploreFrom every
// item of Expand(root).

// Item is a node of the schedule tree: a choice prefix (with the labels recorded for it).
type Item struct {
	Prefix []int
	Labels []string
}

// NewRun returns the chooser that executes item (default choices past the prefix).
func NewRun(it Item) *Run { return &Run{prefix: it.Prefix, labels: it.Labels} }

// Expand returns the children of the executed run r: one deviation at any choice point
// past r's prefix, within bounds b (deviations spent along the whole path count).
func Expand(b Bounds, checkLabels bool, r *Run) []Item {
	var out []Item
	var used Bounds
	total := 0
	for i, p := range r.points {
		if i >= len(r.prefix) {
			for alt := len(p.kinds) - 1; alt >= 1; alt-- {
				k := p.kinds[alt]
				if k != vrt.KFree && (used[k]+1 > b[k] || (b[0] > 0 && total+1 > b[0])) {
					continue
				}
				np := make([]int, i+1)
				for j := 0; j < i; j++ {
					np[j] = r.points[j].chosen
				}
				np[i] = alt
				var nl []string
				if checkLabels {
					nl = make([]string, i+1)
					for j := 0; j <= i; j++ {
						nl[j] = r.points[j].label
					}
				}
				out = append(out, Item{Prefix: np, Labels: nl})
			}
		}
		if k := p.kinds[p.chosen]; k != vrt.KFree {
			used[k]++
			total++
		}
	}
	return out
}

// ExploreFrom enumerates the sub-tree rooted at start (start itself included) within b.
func ExploreFrom(b Bounds, checkLabels bool, start Item, exec func(r *Run) bool) Stats {
	var st Stats
	stack := []Item{start}
	for len(stack) > 0 {
		it := stack[len(stack)-1]
		stack = stack[:len(stack)-1]
		r := NewRun(it)
		cont := exec(r)
		st.Executions++
		st.Points += int64(len(r.points))
		if len(r.points) > st.MaxDepth {
			st.MaxDepth = len(r.points)
		}
		if r.Diverged != "" {
			st.Diverged++
		}
		if !cont {
			return st
		}
		stack = append(stack, Expand(b, checkLabels, r)...)
	}
	st.Complete = true
	return st
}
