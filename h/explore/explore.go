// Package explore is the stateless depth-first explorer: it enumerates choice
// sequences of an execution with iterative deviation bounds (preemptions,
// intra-group switches, faults, environment deviations). Every execution runs
// to completion; choice 0 ("continue") is taken past the replayed prefix.
package explore

import (
	"fmt"

	"verifh/vrt"
)

// Bounds per cost kind (index = vrt.K*). Free choices are unbounded; slot 0 (vrt.KFree)
// holds the bound on the TOTAL number of deviations of all kinds (0 = no total bound).
type Bounds [vrt.NKinds]int

//go:norace
func (b Bounds) String() string {
	return fmt.Sprintf("total<=%d preempt<=%d intra<=%d order<=%d fault<=%d env<=%d", b[0], b[vrt.KPreempt], b[vrt.KIntra], b[vrt.KOrder], b[vrt.KFault], b[vrt.KEnv])
}

type point struct {
	kinds  []uint8
	chosen int
	label  string
}

// Run is the chooser of one execution.
type Run struct {
	prefix []int
	labels []string // labels recorded when the prefix was generated (divergence check); may be nil
	points []point
	// Diverged is set when a replayed choice did not fit (out of range, or label mismatch).
	Diverged string
	// Attempt counts earlier executions of this same prefix that diverged (see MaxRetry).
	Attempt int
	// Foreign is set for the root execution in shards other than 0: it must be executed (its
	// choice points define the subtrees) but belongs to shard 0 for counting and judging.
	Foreign bool
}

//go:norace
func (r *Run) Choose(kinds []uint8, label string) int {
	i := len(r.points)
	c := 0
	if i < len(r.prefix) {
		c = r.prefix[i]
		if c >= len(kinds) {
			if r.Diverged == "" {
				r.Diverged = fmt.Sprintf("point %d (%s): recorded choice %d but only %d alternatives", i, label, c, len(kinds))
			}
			c = 0
		}
		if r.labels != nil && i < len(r.labels) && r.labels[i] != label && r.Diverged == "" {
			r.Diverged = fmt.Sprintf("point %d: label %q, recorded %q", i, label, r.labels[i])
		}
	}
	r.points = append(r.points, point{kinds: kinds, chosen: c, label: label})
	return c
}

// Choices returns the full choice sequence of the execution (a replay file).
//
//go:norace
func (r *Run) Choices() []int {
	out := make([]int, len(r.points))
	for i, p := range r.points {
		out[i] = p.chosen
	}
	return out
}

// Trimmed returns the choice sequence without trailing zeros.
//
//go:norace
func (r *Run) Trimmed() []int {
	c := r.Choices()
	n := len(c)
	for n > 0 && c[n-1] == 0 {
		n--
	}
	return c[:n]
}

//go:norace
func (r *Run) Labels() []string {
	out := make([]string, len(r.points))
	for i, p := range r.points {
		out[i] = p.label
	}
	return out
}

// Used returns the deviations spent per kind.
//
//go:norace
func (r *Run) Used() Bounds {
	var u Bounds
	for _, p := range r.points {
		u[p.kinds[p.chosen]]++
	}
	u[vrt.KFree] = 0
	return u
}

// Replay returns a chooser that replays exactly the given choices.
//
//go:norace
func Replay(choices []int) *Run { return &Run{prefix: choices} }

// MaxRetry > 0 lets a check opt in to re-running an execution whose replayed prefix diverged (a wall-clock effect
// outside the scheduler's control) up to MaxRetry times before the divergence stands; the callback must then not
// judge a run with Diverged != "" and Attempt < MaxRetry. Persistent divergence is still reported by the callback.
var MaxRetry = 0

type Stats struct {
	Retried    int64
	Executions int64
	Points     int64
	MaxDepth   int
	Complete   bool // the whole bounded space was enumerated
	Diverged   int64
}

// item is one pending execution: the parent's choices up to point i, then alternative alt.
// The parent's choice and label slices are shared (immutable) between its children, so the
// pending set costs O(children) and not O(children x depth).
type item struct {
	base    []int
	labels  []string
	i, alt  int
	root    bool
	attempt int
}

func (it item) prefix() []int {
	if it.root {
		return nil
	}
	np := make([]int, it.i+1)
	copy(np, it.base[:it.i])
	np[it.i] = it.alt
	return np
}

func (it item) prefixLabels() []string {
	if it.root || it.labels == nil {
		return nil
	}
	return it.labels[:it.i+1]
}

// Explore enumerates all executions within bounds. exec must run ONE execution
// with the given chooser from a fresh initial state and return false to stop
// the exploration early (time cap); visit is exec's job.
//
//go:norace
func Explore(b Bounds, checkLabels bool, exec func(r *Run) bool) Stats {
	return ExploreShard(b, checkLabels, 0, 1, exec)
}

// ExploreShard explores the subtrees of the root execution whose index ≡ shard (mod n): the
// first-level deviations are numbered in generation order and dealt round robin; a subtree
// belongs entirely to the shard of its first deviation. Every shard runs the root execution
// (marked Foreign except in shard 0). The union over all shards is exactly Explore's space.
//
//go:norace
func ExploreShard(b Bounds, checkLabels bool, shard, n int, exec func(r *Run) bool) Stats {
	var st Stats
	stack := []item{{root: true}}
	level1 := 0
	for len(stack) > 0 {
		it := stack[len(stack)-1]
		stack = stack[:len(stack)-1]
		pre := it.prefix()
		r := &Run{prefix: pre, labels: it.prefixLabels(), Attempt: it.attempt}
		root := it.root
		r.Foreign = root && shard != 0
		cont := exec(r)
		st.Executions++
		st.Points += int64(len(r.points))
		if len(r.points) > st.MaxDepth {
			st.MaxDepth = len(r.points)
		}
		if r.Diverged != "" {
			st.Diverged++
		}
		if !cont {
			return st
		}
		if r.Diverged != "" && it.attempt < MaxRetry {
			st.Retried++
			it.attempt++
			stack = append(stack, it)
			continue
		}
		// children: deviate at any point past the prefix
		var used Bounds
		total := 0
		choices := r.Choices()
		var labels []string
		if checkLabels {
			labels = r.Labels()
		}
		for i, p := range r.points {
			if i >= len(pre) {
				for alt := len(p.kinds) - 1; alt >= 1; alt-- {
					k := p.kinds[alt]
					if k != vrt.KFree && (used[k]+1 > b[k] || (b[0] > 0 && total+1 > b[0])) {
						continue
					}
					if root && n > 1 {
						mine := level1%n == shard
						level1++
						if !mine {
							continue
						}
					}
					stack = append(stack, item{base: choices, labels: labels, i: i, alt: alt})
				}
			}
			if k := p.kinds[p.chosen]; k != vrt.KFree {
				used[k]++
				total++
			}
		}
	}
	st.Complete = true
	return st
}
