package explore

import (
	"testing"
	"time"

	"verifh/vrt"
	sync "verifh/vrt/vsync"
)

func runToy(t *testing.T, b Bounds, locked bool) (execs int64, lost int, outcomes map[int]int) {
	outcomes = map[int]int{}
	st := Explore(b, true, func(r *Run) bool {
		w := vrt.NewWorld(r)
		x := 0
		var mu sync.Mutex
		w.Run(func() {
			var ts []*vrt.Thread
			for i := 0; i < 2; i++ {
				ts = append(ts, w.GoNamed("t", func() {
					for k := 0; k < 2; k++ {
						if locked {
							mu.Lock()
						}
						vrt.Yield("read")
						tmp := x
						vrt.Yield("write")
						x = tmp + 1
						if locked {
							mu.Unlock()
						}
					}
				}))
			}
			w.Join(ts...)
		})
		if msg := w.Close(); msg != "" {
			t.Fatal(msg)
		}
		if w.Deadlock {
			t.Fatal("deadlock: " + w.DeadlockMsg)
		}
		if r.Diverged != "" {
			t.Fatal("diverged: " + r.Diverged)
		}
		outcomes[x]++
		if x != 4 {
			lost++
		}
		return true
	})
	if !st.Complete {
		t.Fatal("incomplete")
	}
	return st.Executions, lost, outcomes
}

func TestToy(t *testing.T) {
	if vrt.RaceEnabled {
		t.Skip("contains an intentional data race")
	}
	for p := 0; p <= 3; p++ {
		var b Bounds
		b[vrt.KPreempt] = p
		e, lost, out := runToy(t, b, false)
		t.Logf("unlocked preempt<=%d: executions=%d lost=%d outcomes=%v", p, e, lost, out)
		if p == 0 && lost != 0 {
			t.Fatal("no preemption must not lose updates")
		}
		if p >= 1 && lost == 0 {
			t.Fatal("lost update not found")
		}
		e, lost, out = runToy(t, b, true)
		t.Logf("locked   preempt<=%d: executions=%d lost=%d outcomes=%v", p, e, lost, out)
		if lost != 0 {
			t.Fatal("locked version lost an update")
		}
	}
}

func TestChanSelect(t *testing.T) {
	var b Bounds
	b[vrt.KPreempt] = 2
	n := 0
	st := Explore(b, true, func(r *Run) bool {
		w := vrt.NewWorld(r)
		restart := make(chan struct{})
		ec := make(chan error)
		got := 0
		var loops int
		w.Run(func() {
			worker := w.GoNamed("worker", func() {
				for {
					loops++
					if loops > 5 {
						return
					}
					switch vrt.Select(true, vrt.NewRecvCase(restart)) {
					case 0:
						return
					default:
						vrt.Sleep(time.Second)
					}
				}
			})
			closer := w.GoNamed("closer", func() {
				vrt.Close(restart)
				vrt.Send(ec, error(nil))
			})
			_ = vrt.Recv(ec)
			got++
			w.Join(worker, closer)
		})
		if msg := w.Close(); msg != "" {
			t.Fatal(msg)
		}
		if w.Deadlock {
			t.Fatalf("deadlock %s choices=%v", w.DeadlockMsg, r.Choices())
		}
		if len(w.Panics) > 0 {
			t.Fatal(w.Panics)
		}
		if got != 1 {
			t.Fatal("recv")
		}
		n++
		return true
	})
	t.Logf("chan/select executions=%d complete=%v", st.Executions, st.Complete)
}
