package explore

import (
	"testing"

	"verifh/vrt"
	"verifh/vrt/verrgroup"
	sync "verifh/vrt/vsync"
)

type racyBox struct {
	mu sync.Mutex
	x  int
}

// body executed by each of two threads; `locked` protects x with the shim mutex.
//
//go:norace
func raceProg(t *testing.T, b Bounds, locked bool, viaErrgroup bool) (execs int64, withRace int64) {
	st := Explore(b, true, func(r *Run) bool {
		w := vrt.NewWorld(r)
		box := &racyBox{}
		before := vrt.RaceErrors()
		w.Run(func() {
			work := func() {
				for k := 0; k < 2; k++ {
					if locked {
						box.mu.Lock()
					}
					vrt.Yield("io")
					touch(box)
					if locked {
						box.mu.Unlock()
					}
				}
			}
			if viaErrgroup {
				var eg verrgroup.Group
				eg.Go(func() error { work(); return nil })
				eg.Go(func() error { work(); return nil })
				eg.Wait()
				touch(box) // after Wait: ordered after both children
				return
			}
			t1 := w.GoNamed("a", work)
			t2 := w.GoNamed("b", work)
			w.Join(t1, t2)
			touch(box)
		})
		after := vrt.RaceErrors()
		if msg := w.Close(); msg != "" {
			t.Fatal(msg)
		}
		if w.Deadlock {
			t.Fatal(w.DeadlockMsg)
		}
		if after > before {
			withRace++
		}
		return true
	})
	return st.Executions, withRace
}

// touch is instrumented application code (NOT norace).
func touch(b *racyBox) { b.x++ }

func TestRaceMode(t *testing.T) {
	if !vrt.RaceEnabled {
		t.Skip("needs -race")
	}
	var b Bounds
	b[vrt.KPreempt], b[vrt.KIntra], b[vrt.KOrder] = 2, 2, 2
	for _, eg := range []bool{false, true} {
		e, r := raceProg(t, b, true, eg)
		t.Logf("errgroup=%v locked: executions=%d executions-with-race-report=%d", eg, e, r)
		if r != 0 {
			t.Fatalf("locked program reported races in %d executions", r)
		}
		// the racy variant is exercised by the C18 self-test inside the worker binary
		// (go test itself fails any test during which the detector reported a race)
	}
}
