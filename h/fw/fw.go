// Package fw is the common frame of every check: sharded workers, merged
// evidence, violation records with replay files, known-findings matching.
package fw

import (
	"encoding/json"
	"fmt"
	"hash/fnv"
	"os"
	"sort"
	"time"
)

// Violation is one failing case found by a worker.
type Violation struct {
	Property string          `json:"property"`
	Class    string          `json:"class"`  // failure class: "panic", "mismatch", "race", …
	Key      string          `json:"key"`    // stable identity of *what* fails (input / call site / history class); known findings match on it
	Detail   string          `json:"detail"` // human readable
	Case     json.RawMessage `json:"case"`   // replayable description (check specific)
	// History is set by the orchestrator when the case alone does not fail in a fresh process but
	// re-running the worker shard that found it does, every time: the failure depends on state the
	// code under test keeps in the process between cases (package-level caches, pools, memos).
	History *History `json:"history,omitempty"`
	Shard   int      `json:"shard"`
	NShards int      `json:"nshards"`
}

// History names the deterministic sequence of cases (one worker shard) that reproduces a violation.
type History struct {
	Tier    string `json:"tier"`
	Shard   int    `json:"shard"`
	NShards int    `json:"nshards"`
}

// Result is what one worker shard reports.
type Result struct {
	Check       string           `json:"check"`
	Shard       int              `json:"shard"`
	Evaluations int64            `json:"evaluations"`
	Nontrivial  int64            `json:"nontrivial"` // distinct non-trivial cases (cases are enumerated once each, shards are disjoint)
	States      int64            `json:"states"`
	Transitions int64            `json:"transitions"`
	Traces      int64            `json:"traces"`
	Outcomes    map[string]int64 `json:"outcomes"` // distinct observed outcome classes → count
	Counters    map[string]int64 `json:"counters"` // non-vacuity counters
	Samples     []any            `json:"samples"`
	Violations  []Violation      `json:"violations"`
	VioCount    map[string]int64 `json:"vio_count"` // key → how many cases hit it
	Exhaustive  bool             `json:"exhaustive"`
	Caps        []string         `json:"caps"`   // caps that were hit
	Bounds      map[string]any   `json:"bounds"` // completed bounds per dimension
	HarnessErr  string           `json:"harness_err"`
	WallS       float64          `json:"wall_s"`
}

// Ctx is handed to a check's Run function inside a worker.
type Ctx struct {
	Tier    string
	Seed    int64
	Shard   int
	NShards int
	Res     *Result
	start   time.Time
	// Deadline after which a check should stop enumerating and report exhaustive=false.
	Deadline    time.Time
	maxPerKey   int
	sampleEvery int64
	idx         int64 // global case index for sharding helpers
}

func NewCtx(check, tier string, seed int64, shard, nshards int, budget time.Duration) *Ctx {
	c := &Ctx{Tier: tier, Seed: seed, Shard: shard, NShards: nshards, start: time.Now(), maxPerKey: 3}
	c.Res = &Result{Check: check, Shard: shard, Outcomes: map[string]int64{}, Counters: map[string]int64{},
		VioCount: map[string]int64{}, Exhaustive: true, Bounds: map[string]any{}}
	if budget > 0 {
		c.Deadline = c.start.Add(budget)
	}
	return c
}

func (c *Ctx) Thorough() bool { return c.Tier == "thorough" }

// Mine reports whether the next top-level job belongs to this shard (round robin).
func (c *Ctx) Mine() bool {
	i := c.idx
	c.idx++
	return int(i%int64(c.NShards)) == c.Shard
}

// Expired reports whether the internal time budget is used up; the caller must
// then stop, and the run is reported as not exhaustive (never as a violation).
func (c *Ctx) Expired() bool {
	if c.Deadline.IsZero() {
		return false
	}
	if time.Now().After(c.Deadline) {
		c.Cap("time-budget")
		return true
	}
	return false
}

func (c *Ctx) Cap(name string) {
	c.Res.Exhaustive = false
	for _, x := range c.Res.Caps {
		if x == name {
			return
		}
	}
	c.Res.Caps = append(c.Res.Caps, name)
}

func (c *Ctx) Eval(nontrivial bool) {
	c.Res.Evaluations++
	if nontrivial {
		c.Res.Nontrivial++
	}
}
func (c *Ctx) Count(name string, n int64) { c.Res.Counters[name] += n }
func (c *Ctx) Outcome(k string)           { c.Res.Outcomes[k]++ }
func (c *Ctx) Bound(k string, v any)      { c.Res.Bounds[k] = v }

// Sample keeps a handful of written-out cases (first few, then sparse).
func (c *Ctx) Sample(v any) {
	if len(c.Res.Samples) < 3 {
		c.Res.Samples = append(c.Res.Samples, v)
		return
	}
	if c.Res.Evaluations%50021 == 0 && len(c.Res.Samples) < 8 {
		c.Res.Samples = append(c.Res.Samples, v)
	}
}

func (c *Ctx) Violation(prop, class, key, detail string, cas any) {
	c.Res.VioCount[key]++
	if c.Res.VioCount[key] > int64(c.maxPerKey) {
		return
	}
	raw, err := json.Marshal(cas)
	if err != nil {
		raw, _ = json.Marshal(fmt.Sprint(cas))
	}
	c.Res.Violations = append(c.Res.Violations, Violation{Property: prop, Class: class, Key: key, Detail: detail, Case: raw, Shard: c.Shard, NShards: c.NShards})
}

func (c *Ctx) HarnessError(format string, a ...any) {
	if c.Res.HarnessErr == "" {
		c.Res.HarnessErr = fmt.Sprintf(format, a...)
	}
}

func (c *Ctx) Finish() *Result {
	c.Res.WallS = time.Since(c.start).Seconds()
	return c.Res
}

// Hash64 is a helper for outcome hashing.
func Hash64(s string) uint64 {
	h := fnv.New64a()
	h.Write([]byte(s))
	return h.Sum64()
}

// ---- merged evidence ----------------------------------------------------

type Merged struct {
	Result
	Shards int
}

func Merge(rs []*Result) *Merged {
	m := &Merged{Shards: len(rs)}
	m.Outcomes, m.Counters, m.VioCount, m.Bounds = map[string]int64{}, map[string]int64{}, map[string]int64{}, map[string]any{}
	m.Exhaustive = true
	for _, r := range rs {
		m.Check = r.Check
		m.Evaluations += r.Evaluations
		m.Nontrivial += r.Nontrivial
		m.States += r.States
		m.Transitions += r.Transitions
		m.Traces += r.Traces
		for k, v := range r.Outcomes {
			m.Outcomes[k] += v
		}
		for k, v := range r.Counters {
			m.Counters[k] += v
		}
		for k, v := range r.VioCount {
			m.VioCount[k] += v
		}
		for k, v := range r.Bounds {
			m.Bounds[k] = v
		}
		if len(m.Samples) < 10 {
			for _, s := range r.Samples {
				if len(m.Samples) < 10 {
					m.Samples = append(m.Samples, s)
				}
			}
		}
		m.Violations = append(m.Violations, r.Violations...)
		if !r.Exhaustive {
			m.Exhaustive = false
		}
		for _, c := range r.Caps {
			found := false
			for _, x := range m.Caps {
				found = found || x == c
			}
			if !found {
				m.Caps = append(m.Caps, c)
			}
		}
		if r.HarnessErr != "" && m.HarnessErr == "" {
			m.HarnessErr = fmt.Sprintf("shard %d: %s", r.Shard, r.HarnessErr)
		}
		if r.WallS > m.WallS {
			m.WallS = r.WallS
		}
	}
	sort.SliceStable(m.Violations, func(i, j int) bool { return m.Violations[i].Key < m.Violations[j].Key })
	return m
}

// ---- known findings -----------------------------------------------------

type Finding struct {
	Status   string `json:"status"` // "known" | "fixed"
	Property string `json:"property"`
	Title    string `json:"title"`
	KeyRegex string `json:"key_regex,omitempty"` // anchored regex on Violation.Key (known entries only)
	Commit   string `json:"commit,omitempty"`
	What     string `json:"what"`
}

func LoadFindings(path string) ([]Finding, error) {
	b, err := os.ReadFile(path)
	if os.IsNotExist(err) {
		return nil, nil
	}
	if err != nil {
		return nil, err
	}
	var f struct {
		Findings []Finding `json:"findings"`
	}
	if err := json.Unmarshal(b, &f); err != nil {
		return nil, err
	}
	return f.Findings, nil
}
