package fw

import (
	"encoding/binary"
	"encoding/json"
	"os"
	"sync/atomic"
	"syscall"
	"time"
)

// Guard: a watchdog for single cases that must terminate promptly (C10), and a
// crash breadcrumb (the case being executed, in an mmap'ed file that survives
// a fatal runtime error of the worker).

type guardState struct {
	start time.Time
	vio   Violation
}

var curGuard atomic.Pointer[guardState]

// Enter marks the start of a guarded case; if the case has not called Leave
// after limit, the watchdog records v, flushes the result file and ends the worker.
func (c *Ctx) Enter(v Violation) { curGuard.Store(&guardState{start: time.Now(), vio: v}) }
func (c *Ctx) Leave()            { curGuard.Store(nil) }

var lastTick atomic.Int64

// Tick marks progress inside a guarded group: the limit applies to a single case.
func (c *Ctx) Tick() { lastTick.Store(time.Now().UnixNano()) }

// StartWatchdog is called by the worker main.
func (c *Ctx) StartWatchdog(limit time.Duration, out string) {
	go func() {
		for {
			time.Sleep(500 * time.Millisecond)
			g := curGuard.Load()
			if lt := lastTick.Load(); g != nil && time.Since(g.start) > limit && time.Since(time.Unix(0, lt)) > limit {
				c.Res.Violations = append(c.Res.Violations, g.vio)
				c.Res.VioCount[g.vio.Key]++
				c.Cap("aborted-after-unbounded-case")
				b, _ := json.Marshal(c.Finish())
				os.WriteFile(out, b, 0o644)
				os.Exit(0)
			}
		}
	}()
}

var crumb []byte

// OpenCrumb maps the breadcrumb file (4 KiB).
func OpenCrumb(path string) error {
	f, err := os.OpenFile(path, os.O_RDWR|os.O_CREATE, 0o644)
	if err != nil {
		return err
	}
	defer f.Close()
	if err := f.Truncate(4096); err != nil {
		return err
	}
	crumb, err = syscall.Mmap(int(f.Fd()), 0, 4096, syscall.PROT_READ|syscall.PROT_WRITE, syscall.MAP_SHARED)
	return err
}

// Crumb records the case about to be executed (at most 4000 bytes).
func Crumb(b []byte) {
	if crumb == nil {
		return
	}
	if len(b) > 4000 {
		b = b[:4000]
	}
	binary.LittleEndian.PutUint32(crumb[0:4], uint32(len(b)))
	copy(crumb[4:], b)
}

// ReadCrumb returns the last breadcrumb of a dead worker.
func ReadCrumb(path string) []byte {
	b, err := os.ReadFile(path)
	if err != nil || len(b) < 4 {
		return nil
	}
	n := int(binary.LittleEndian.Uint32(b[0:4]))
	if n == 0 || n > len(b)-4 {
		return nil
	}
	return b[4 : 4+n]
}
