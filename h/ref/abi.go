// Package ref holds the reference models the oracles compare against. They
// are written from the Solidity ABI specification and shovel's documentation,
// not from the code under test.
package ref

import (
	"fmt"
	"math/big"
	"strings"
)

// Node is one ABI input: a base (elementary leaf or tuple) plus array
// dimensions (innermost first, 0 = dynamic), e.g. uint256[2][] = Leaf
// "uint256", Dims [2,0].
type Node struct {
	Leaf   string  // elementary type spelling; "" for a tuple
	Fields []*Node // tuple components
	Dims   []int
	Sel    bool // leaf bound to a column
	Col    int  // column position among selected leaves (declaration order), set by Number()
	Name   string
}

func Leaf(spelling string, dims ...int) *Node { return &Node{Leaf: spelling, Dims: dims} }
func Tuple(fields []*Node, dims ...int) *Node { return &Node{Fields: fields, Dims: dims} }

func (n *Node) IsTuple() bool { return n.Leaf == "" }

// DynamicLeaf reports whether an elementary spelling is a dynamic type.
func DynamicLeaf(s string) bool { return s == "bytes" || s == "string" }

// baseDynamic: is the base (ignoring dims) dynamic per the ABI spec.
func (n *Node) baseDynamic() bool {
	if !n.IsTuple() {
		return DynamicLeaf(n.Leaf)
	}
	for _, f := range n.Fields {
		if f.Dynamic() {
			return true
		}
	}
	return false
}

// Dynamic per the ABI spec: bytes, string, T[] for any T, T[k] for dynamic T, tuple with a dynamic member.
func (n *Node) Dynamic() bool { return n.dynAt(len(n.Dims)) }

// dynAt: dynamic-ness of the type formed by the base and the first d dims.
func (n *Node) dynAt(d int) bool {
	if n.baseDynamic() {
		return true
	}
	for i := 0; i < d; i++ {
		if n.Dims[i] == 0 {
			return true
		}
	}
	return false
}

// TypeString is the canonical ABI type string with tuples expanded (for signatures).
func (n *Node) TypeString() string {
	var s string
	if n.IsTuple() {
		var parts []string
		for _, f := range n.Fields {
			parts = append(parts, f.TypeString())
		}
		s = "(" + strings.Join(parts, ",") + ")"
	} else {
		s = n.Leaf
	}
	return s + n.dimString()
}

func (n *Node) dimString() string {
	var s string
	for _, k := range n.Dims {
		if k == 0 {
			s += "[]"
		} else {
			s += fmt.Sprintf("[%d]", k)
		}
	}
	return s
}

// JSONType is the "type" member of the JSON ABI ("tuple[2][]" for tuples).
func (n *Node) JSONType() string {
	if n.IsTuple() {
		return "tuple" + n.dimString()
	}
	return n.Leaf + n.dimString()
}

// Leaves returns the elementary leaves in declaration order.
func (n *Node) Leaves() []*Node {
	if !n.IsTuple() {
		return []*Node{n}
	}
	var out []*Node
	for _, f := range n.Fields {
		out = append(out, f.Leaves()...)
	}
	return out
}

func (n *Node) Size() int {
	s := 1 + len(n.Dims)
	for _, f := range n.Fields {
		s += f.Size()
	}
	return s
}

func (n *Node) Depth() int {
	d := 0
	for _, f := range n.Fields {
		if x := f.Depth(); x > d {
			d = x
		}
	}
	return 1 + len(n.Dims) + d
}

func (n *Node) Clone() *Node {
	c := *n
	c.Dims = append([]int(nil), n.Dims...)
	c.Fields = nil
	for _, f := range n.Fields {
		c.Fields = append(c.Fields, f.Clone())
	}
	return &c
}

func (n *Node) HasSel() bool {
	for _, l := range n.Leaves() {
		if l.Sel {
			return true
		}
	}
	return false
}

// RowRuleDefined reports whether every selected leaf lies outside the region
// the property excludes: a selected array nested inside a tuple that is itself
// an array element. inArr = an enclosing node already carries dims.
func (n *Node) RowRuleDefined(inArr bool) bool {
	if !n.IsTuple() {
		return !(n.Sel && inArr && len(n.Dims) > 0)
	}
	if inArr && len(n.Dims) > 0 && n.HasSel() {
		return false
	}
	for _, f := range n.Fields {
		if !f.RowRuleDefined(inArr || len(n.Dims) > 0) {
			return false
		}
	}
	return true
}

// ---- values -----------------------------------------------------------

// Value of a node: for dims, []any of element values (outermost dim first);
// for a tuple base, []any of field values; for a leaf, []byte (the 32-byte
// word of a static leaf, the raw content of a dynamic leaf).
type Value = any

// Shape decides the free choices while generating a value.
type Shape struct {
	ArrLens  []int // dynamic array lengths, consumed round robin
	ByteLens []int // dynamic leaf lengths, consumed round robin
	ai, bi   int
	ctr      int
}

func (s *Shape) Reset() { s.ai, s.bi, s.ctr = 0, 0, 0 }

func (s *Shape) arr() int {
	v := s.ArrLens[s.ai%len(s.ArrLens)]
	s.ai++
	return v
}
func (s *Shape) blen() int {
	v := s.ByteLens[s.bi%len(s.ByteLens)]
	s.bi++
	return v
}

// Gen builds a value for n; every leaf value is distinct (a counter is embedded).
func Gen(n *Node, s *Shape) Value { return genAt(n, len(n.Dims), s) }

func genAt(n *Node, d int, s *Shape) Value {
	if d > 0 {
		k := n.Dims[d-1]
		if k == 0 {
			k = s.arr()
		}
		out := make([]any, k)
		for i := range out {
			out[i] = genAt(n, d-1, s)
		}
		return out
	}
	if n.IsTuple() {
		out := make([]any, len(n.Fields))
		for i, f := range n.Fields {
			out[i] = Gen(f, s)
		}
		return out
	}
	s.ctr++
	if DynamicLeaf(n.Leaf) {
		l := s.blen()
		b := make([]byte, l)
		for i := range b {
			b[i] = byte(0x80 | (s.ctr*7+i)&0x7f)
		}
		return b
	}
	w := make([]byte, 32)
	w[0] = 0xA0 | byte(s.ctr&0xf) // non-zero high byte: an offset misread as data (or vice versa) is visible
	w[30] = byte(s.ctr >> 8)
	w[31] = byte(s.ctr)
	w[15] = 0xC3
	return w
}

func word(n uint64) []byte {
	w := make([]byte, 32)
	new(big.Int).SetUint64(n).FillBytes(w)
	return w
}

func pad32(b []byte) []byte {
	out := append([]byte(nil), b...)
	for len(out)%32 != 0 {
		out = append(out, 0)
	}
	return out
}

// Encode is the ABI encoding enc(X) of value v for node n (Solidity ABI spec, "Formal specification of the encoding").
func Encode(n *Node, v Value) []byte { return encAt(n, len(n.Dims), v) }

func encAt(n *Node, d int, v Value) []byte {
	if d > 0 {
		elems := v.([]any)
		body := encSeq(len(elems), func(i int) (bool, []byte) {
			return n.dynAt(d - 1), encAt(n, d-1, elems[i])
		})
		if n.Dims[d-1] == 0 {
			return append(word(uint64(len(elems))), body...)
		}
		return body
	}
	if n.IsTuple() {
		vals := v.([]any)
		return encSeq(len(n.Fields), func(i int) (bool, []byte) {
			return n.Fields[i].Dynamic(), Encode(n.Fields[i], vals[i])
		})
	}
	b := v.([]byte)
	if DynamicLeaf(n.Leaf) {
		return append(word(uint64(len(b))), pad32(b)...)
	}
	return b
}

// encSeq: head/tail encoding of a sequence of k components.
func encSeq(k int, comp func(i int) (dyn bool, enc []byte)) []byte {
	type c struct {
		dyn bool
		enc []byte
	}
	cs := make([]c, k)
	headLen := 0
	for i := 0; i < k; i++ {
		d, e := comp(i)
		cs[i] = c{d, e}
		if d {
			headLen += 32
		} else {
			headLen += len(e)
		}
	}
	var head, tail []byte
	for _, x := range cs {
		if x.dyn {
			head = append(head, word(uint64(headLen+len(tail)))...)
			tail = append(tail, x.enc...)
		} else {
			head = append(head, x.enc...)
		}
	}
	return append(head, tail...)
}

// EncodeInputs encodes the event data: the tuple of the non-indexed inputs.
func EncodeInputs(inputs []*Node, vals []Value) []byte {
	return encSeq(len(inputs), func(i int) (bool, []byte) {
		return inputs[i].Dynamic(), Encode(inputs[i], vals[i])
	})
}

// Number assigns column positions to the selected leaves in declaration order and returns the column count.
func Number(inputs []*Node) int {
	pos := 0
	for _, in := range inputs {
		for _, l := range in.Leaves() {
			if l.Sel {
				l.Col = pos
				pos++
			}
		}
	}
	return pos
}

// Rows is the row rule: selected scalars (leaves under no array) once, repeated
// in every row; one row per innermost element of each array that contains a
// selected leaf, in order, arrays in declaration order; the fields of one tuple
// element share a row. If no row was produced by an array: one row with the scalars.
// Cells not set are nil. Only defined when RowRuleDefined holds for every input.
func Rows(inputs []*Node, vals []Value) [][][]byte {
	ncols := Number(inputs)
	scalars := make([][]byte, ncols)
	var rows [][][]byte
	var visit func(n *Node, d int, v Value, row [][]byte)
	visit = func(n *Node, d int, v Value, row [][]byte) {
		if !n.HasSel() {
			return
		}
		if d > 0 {
			for _, e := range v.([]any) {
				r := row
				if d == 1 {
					r = make([][]byte, ncols)
					rows = append(rows, r)
				}
				visit(n, d-1, e, r)
			}
			return
		}
		if n.IsTuple() {
			for i, f := range n.Fields {
				visit(f, len(f.Dims), v.([]any)[i], row)
			}
			return
		}
		if n.Sel {
			row[n.Col] = v.([]byte)
		}
	}
	for i, in := range inputs {
		visit(in, len(in.Dims), vals[i], scalars)
	}
	if len(rows) == 0 {
		rows = append(rows, make([][]byte, ncols))
	}
	for _, r := range rows {
		for j := range scalars {
			if len(scalars[j]) > 0 {
				r[j] = scalars[j]
			}
		}
	}
	return rows
}

// ---- enumeration --------------------------------------------------------

// EnumNodes returns all nodes of exactly the given size and at most maxDepth,
// simplest first. leaves: elementary spellings; ks: fixed array lengths (0 is added for dynamic).
func EnumNodes(size, maxDepth int, leaves []string, ks []int) []*Node {
	if size < 1 || maxDepth < 1 {
		return nil
	}
	var out []*Node
	if size == 1 {
		for _, l := range leaves {
			out = append(out, Leaf(l))
		}
		return out
	}
	// array of a smaller node: add one dim (outermost) to any node of size-1
	for _, sub := range EnumNodes(size-1, maxDepth-1, leaves, ks) {
		for _, k := range append([]int{0}, ks...) {
			c := sub.Clone()
			c.Dims = append(c.Dims, k)
			out = append(out, c)
		}
	}
	// tuple with 1..3 fields, sizes summing to size-1
	if maxDepth >= 2 {
		for nf := 1; nf <= 3; nf++ {
			for _, fs := range enumSeqs(size-1, nf, maxDepth-1, leaves, ks) {
				out = append(out, Tuple(fs))
			}
		}
	}
	return out
}

// enumSeqs: all sequences of nf nodes whose sizes sum to total.
func enumSeqs(total, nf, maxDepth int, leaves []string, ks []int) [][]*Node {
	if nf == 0 {
		if total == 0 {
			return [][]*Node{nil}
		}
		return nil
	}
	var out [][]*Node
	for s := 1; s <= total-(nf-1); s++ {
		firsts := EnumNodes(s, maxDepth, leaves, ks)
		if len(firsts) == 0 {
			continue
		}
		rests := enumSeqs(total-s, nf-1, maxDepth, leaves, ks)
		for _, f := range firsts {
			for _, r := range rests {
				seq := append([]*Node{f.Clone()}, cloneSeq(r)...)
				out = append(out, seq)
			}
		}
	}
	return out
}

func cloneSeq(ns []*Node) []*Node {
	var out []*Node
	for _, n := range ns {
		out = append(out, n.Clone())
	}
	return out
}

// EnumEvents: all input lists of 1..3 inputs with total size <= maxSize.
func EnumEvents(maxSize, maxDepth int, leaves []string, ks []int, fn func(inputs []*Node)) {
	for total := 1; total <= maxSize; total++ {
		for ni := 1; ni <= 3 && ni <= total; ni++ {
			for _, seq := range enumSeqs(total, ni, maxDepth, leaves, ks) {
				fn(seq)
			}
		}
	}
}
