package ref

import (
	"encoding/hex"
	"strings"
	"testing"
)

func TestKeccakVectors(t *testing.T) {
	for in, want := range map[string]string{
		"":                                  "c5d2460186f7233c927e7db2dcc703c0e500b653ca82273b7bfad8045d85a470",
		"Transfer(address,address,uint256)": "ddf252ad1be2c89b69c2b068fc378daa952ba7f163c4a11628f55a4df523b3ef",
		"abc":                               "4e03657aea45a94fc7d47ba826c8d667c0d1e6e33a64a036ec44f58fa12d6c45",
		strings.Repeat("a", 136):            "",
		strings.Repeat("a", 135):            "",
	} {
		got := hex.EncodeToString(Keccak256([]byte(in)))
		if want != "" && got != want {
			t.Errorf("keccak(%q) = %s want %s", in, got, want)
		}
	}
}
