package ref

import (
	"strconv"
	"strings"
)

// Canonical event signatures, written from the Solidity ABI specification
// ("Function Selector and Argument Encoding" / "Events" / "Handling tuple types"):
//
//   - the signature is the event name followed by the parenthesised list of
//     the canonical parameter types, separated by single commas, no spaces,
//     no parameter names, no "indexed" markers;
//   - a tuple type is written as the parenthesised, comma separated list of the
//     canonical types of its components: (T1,T2,...,Tn);
//   - an array type is the canonical element type followed by [] (dynamic) or
//     [k] (fixed, decimal k); dimensions are appended left to right, innermost
//     first: uint256[2][] is a dynamic array of uint256[2];
//   - topic0 of a non-anonymous event is keccak256 of that string.
//
// This file deliberately does not use Node.TypeString (abi.go) so that the
// signature oracle has a single, self-contained definition.

// CanonType returns the canonical ABI type of n with tuples expanded.
func CanonType(n *Node) string {
	var b strings.Builder
	canonType(&b, n)
	return b.String()
}

func canonType(b *strings.Builder, n *Node) {
	if n.IsTuple() {
		b.WriteByte('(')
		for i, f := range n.Fields {
			if i > 0 {
				b.WriteByte(',')
			}
			canonType(b, f)
		}
		b.WriteByte(')')
	} else {
		b.WriteString(n.Leaf)
	}
	for _, k := range n.Dims {
		b.WriteByte('[')
		if k != 0 {
			b.WriteString(strconv.Itoa(k))
		}
		b.WriteByte(']')
	}
}

// EventSignature is the canonical signature name(type1,type2,...) of an event
// with the given inputs (indexed or not: indexing is not part of the signature).
func EventSignature(name string, inputs []*Node) string {
	var b strings.Builder
	b.WriteString(name)
	b.WriteByte('(')
	for i, n := range inputs {
		if i > 0 {
			b.WriteByte(',')
		}
		canonType(&b, n)
	}
	b.WriteByte(')')
	return b.String()
}

// Topic0 is the first topic of a log emitted by the (non-anonymous) event.
func Topic0(name string, inputs []*Node) []byte {
	return Keccak256([]byte(EventSignature(name, inputs)))
}
