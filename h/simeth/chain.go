// Package simeth is a simulated Ethereum chain model plus a JSON-RPC node that
// is an http.RoundTripper. See SPEC.md. Standard library only.
package simeth

import (
	"crypto/sha256"
	"encoding/binary"
	"hash"
	"math/big"
)

type Log struct {
	Idx     uint64   // block-wide log index (0,1,2,… over the block's txs in order)
	Address []byte   // 20 bytes
	Topics  [][]byte // 0..4 topics, each 32 bytes
	Data    []byte   // any length (may be empty)
	Tag     string   // oracle annotation, never served
	Note    any      // oracle annotation, never served (copied by reference)
}

type Trace struct {
	From, To []byte // 20 bytes
	Value    *big.Int
	CallType string // "call", "delegatecall", "staticcall", …
}

type Tx struct {
	Idx                                uint64
	Hash                               []byte // 32
	Type                               byte
	ChainID                            *big.Int
	Nonce                              uint64
	GasPrice                           *big.Int
	Gas                                uint64
	From, To                           []byte // 20; To may be nil (contract creation → JSON null)
	Value                              *big.Int
	Input                              []byte
	V, R, S                            *big.Int
	MaxPriorityFeePerGas, MaxFeePerGas *big.Int
	// receipt
	Status            byte
	GasUsed           uint64
	EffectiveGasPrice *big.Int
	ContractAddress   []byte // 20 or nil (→ JSON null)
	Logs              []*Log
	Traces            []*Trace
}

type Block struct {
	Num    uint64
	Hash   []byte // 32
	Parent []byte // 32
	Time   uint64
	Bloom  []byte // 256
	Txs    []*Tx
}

func (b *Block) hasLogs() bool {
	for _, t := range b.Txs {
		if len(t.Logs) > 0 {
			return true
		}
	}
	return false
}

// Chain invariant: Blocks[i].Num == uint64(i); Blocks[0] is genesis.
type Chain struct{ Blocks []*Block }

// Head returns the last block (nil for an empty chain).
func (c *Chain) Head() *Block {
	if c == nil || len(c.Blocks) == 0 {
		return nil
	}
	return c.Blocks[len(c.Blocks)-1]
}

// Block returns block n or nil when n is beyond the head.
func (c *Chain) Block(n uint64) *Block {
	if c == nil || n >= uint64(len(c.Blocks)) {
		return nil
	}
	return c.Blocks[n]
}

func cpB(b []byte) []byte {
	if b == nil {
		return nil
	}
	return append([]byte{}, b...)
}

func cpI(i *big.Int) *big.Int {
	if i == nil {
		return nil
	}
	return new(big.Int).Set(i)
}

func (l *Log) clone() *Log {
	n := &Log{Idx: l.Idx, Address: cpB(l.Address), Data: cpB(l.Data), Tag: l.Tag, Note: l.Note}
	if l.Topics != nil {
		n.Topics = make([][]byte, len(l.Topics))
		for i := range l.Topics {
			n.Topics[i] = cpB(l.Topics[i])
		}
	}
	return n
}

func (t *Trace) clone() *Trace {
	return &Trace{From: cpB(t.From), To: cpB(t.To), Value: cpI(t.Value), CallType: t.CallType}
}

func (t *Tx) clone() *Tx {
	n := *t
	n.Hash, n.From, n.To, n.Input, n.ContractAddress = cpB(t.Hash), cpB(t.From), cpB(t.To), cpB(t.Input), cpB(t.ContractAddress)
	n.ChainID, n.GasPrice, n.Value, n.V, n.R, n.S = cpI(t.ChainID), cpI(t.GasPrice), cpI(t.Value), cpI(t.V), cpI(t.R), cpI(t.S)
	n.MaxPriorityFeePerGas, n.MaxFeePerGas, n.EffectiveGasPrice = cpI(t.MaxPriorityFeePerGas), cpI(t.MaxFeePerGas), cpI(t.EffectiveGasPrice)
	n.Logs, n.Traces = nil, nil
	for _, l := range t.Logs {
		n.Logs = append(n.Logs, l.clone())
	}
	for _, tr := range t.Traces {
		n.Traces = append(n.Traces, tr.clone())
	}
	return &n
}

func (b *Block) clone() *Block {
	n := &Block{Num: b.Num, Hash: cpB(b.Hash), Parent: cpB(b.Parent), Time: b.Time, Bloom: cpB(b.Bloom)}
	for _, t := range b.Txs {
		n.Txs = append(n.Txs, t.clone())
	}
	return n
}

// Clone returns a deep copy (Log.Note is copied by reference).
func (c *Chain) Clone() *Chain {
	n := &Chain{}
	for _, b := range c.Blocks {
		n.Blocks = append(n.Blocks, b.clone())
	}
	return n
}

// Truncate returns a deep copy keeping blocks 0..n (the whole chain when n is beyond the head).
func (c *Chain) Truncate(n uint64) *Chain {
	r := &Chain{}
	for i, b := range c.Blocks {
		if uint64(i) > n {
			break
		}
		r.Blocks = append(r.Blocks, b.clone())
	}
	return r
}

// digest helpers: every item is length- or tag-prefixed so the encoding is injective.
func wu(h hash.Hash, v uint64) {
	var b [8]byte
	binary.BigEndian.PutUint64(b[:], v)
	h.Write(b[:])
}

func wb(h hash.Hash, b []byte) {
	if b == nil {
		wu(h, ^uint64(0))
		return
	}
	wu(h, uint64(len(b)))
	h.Write(b)
}

func wi(h hash.Hash, i *big.Int) {
	if i == nil {
		wb(h, nil)
		return
	}
	wu(h, uint64(i.Sign()+1))
	wb(h, i.Bytes())
}

func (t *Tx) digest(h hash.Hash) {
	wu(h, t.Idx)
	wb(h, t.Hash)
	wu(h, uint64(t.Type))
	wi(h, t.ChainID)
	wu(h, t.Nonce)
	wi(h, t.GasPrice)
	wu(h, t.Gas)
	wb(h, t.From)
	wb(h, t.To)
	wi(h, t.Value)
	wb(h, t.Input)
	wi(h, t.V)
	wi(h, t.R)
	wi(h, t.S)
	wi(h, t.MaxPriorityFeePerGas)
	wi(h, t.MaxFeePerGas)
	wu(h, uint64(t.Status))
	wu(h, t.GasUsed)
	wi(h, t.EffectiveGasPrice)
	wb(h, t.ContractAddress)
	wu(h, uint64(len(t.Logs)))
	for _, l := range t.Logs {
		wu(h, l.Idx)
		wb(h, l.Address)
		wu(h, uint64(len(l.Topics)))
		for _, tp := range l.Topics {
			wb(h, tp)
		}
		wb(h, l.Data)
	}
	wu(h, uint64(len(t.Traces)))
	for _, tr := range t.Traces {
		wb(h, tr.From)
		wb(h, tr.To)
		wi(h, tr.Value)
		wb(h, []byte(tr.CallType))
	}
}

// Seal (re)computes Num, tx Idx, block-wide log Idx, Parent and Hash of every block.
// Hash = sha256("blk" ‖ Parent ‖ Num ‖ Time ‖ Bloom ‖ sha256(all tx fields, logs, traces)).
func (c *Chain) Seal() {
	parent := make([]byte, 32)
	for i, b := range c.Blocks {
		b.Num = uint64(i)
		li := uint64(0)
		td := sha256.New()
		wu(td, uint64(len(b.Txs)))
		for j, t := range b.Txs {
			t.Idx = uint64(j)
			for _, l := range t.Logs {
				l.Idx = li
				li++
			}
			t.digest(td)
		}
		h := sha256.New()
		h.Write([]byte("blk"))
		wb(h, parent)
		wu(h, b.Num)
		wu(h, b.Time)
		wb(h, b.Bloom)
		h.Write(td.Sum(nil))
		b.Parent = cpB(parent)
		b.Hash = h.Sum(nil)
		parent = b.Hash
	}
}

// Sealed reports whether Seal would change nothing (cheap sanity check for SetChain callers).
func (c *Chain) Sealed() bool {
	d := c.Clone()
	d.Seal()
	for i, b := range c.Blocks {
		if b.Num != d.Blocks[i].Num || string(b.Hash) != string(d.Blocks[i].Hash) || string(b.Parent) != string(d.Blocks[i].Parent) {
			return false
		}
		for j, t := range b.Txs {
			if t.Idx != d.Blocks[i].Txs[j].Idx {
				return false
			}
			for k, l := range t.Logs {
				if l.Idx != d.Blocks[i].Txs[j].Logs[k].Idx {
					return false
				}
			}
		}
	}
	return true
}

// TxSpec / BlockSpec describe the caller-owned content of a block; everything else is filled.
type TxSpec struct {
	Logs   []*Log
	Traces []*Trace
	NoTo   bool
}

// BlockSpec.TimeDelta perturbs Time so a replacement block with the same content still gets a new hash.
type BlockSpec struct {
	Txs       []TxSpec
	TimeDelta uint64
}

func (c *Chain) appendSpecs(specs []BlockSpec, salt uint64) {
	for _, s := range specs {
		b := &Block{Num: uint64(len(c.Blocks))}
		FillBlock(b, salt)
		b.Time += s.TimeDelta
		for j, ts := range s.Txs {
			tx := &Tx{Idx: uint64(j)}
			FillTx(tx, b.Num, uint64(j), salt)
			if ts.NoTo {
				tx.To = nil
			}
			for _, l := range ts.Logs {
				tx.Logs = append(tx.Logs, l.clone())
			}
			for _, tr := range ts.Traces {
				tx.Traces = append(tx.Traces, tr.clone())
			}
			b.Txs = append(b.Txs, tx)
		}
		if !b.hasLogs() {
			b.Bloom = make([]byte, 256) // as real nodes: the logs bloom of a block without logs has no bit set
		}
		c.Blocks = append(c.Blocks, b)
	}
	c.Seal()
}

// Build returns genesis (no txs) plus one block per spec, filled and sealed.
// Logs and traces of the specs are deep-copied (Tag/Note preserved).
func Build(specs []BlockSpec, salt uint64) *Chain {
	c := &Chain{}
	c.appendSpecs(append([]BlockSpec{{}}, specs...), salt)
	return c
}

// Extend returns a deep copy with the new blocks appended, sealed.
func (c *Chain) Extend(specs []BlockSpec, salt uint64) *Chain {
	n := c.Clone()
	n.appendSpecs(specs, salt)
	return n
}

// Reorg keeps blocks 0..fork and appends the replacements, sealed. A salt different
// from the one of the replaced branch gives every replaced block another hash even
// when the content is equal.
func (c *Chain) Reorg(fork uint64, repl []BlockSpec, salt uint64) *Chain {
	n := c.Truncate(fork)
	n.appendSpecs(repl, salt)
	return n
}
