package simeth

import (
	"crypto/sha256"
	"encoding/binary"
	"encoding/hex"
	"fmt"
	"math/big"
	"strings"
)

var (
	two64   = new(big.Int).Lsh(big.NewInt(1), 64)
	bigSpan = new(big.Int).Sub(new(big.Int).Lsh(big.NewInt(1), 120), two64) // 2^120 - 2^64
)

// stream returns n deterministic bytes derived from seed (sha256 in counter mode).
func stream(seed string, n int) []byte {
	var out []byte
	for i := 0; len(out) < n; i++ {
		s := sha256.Sum256([]byte(fmt.Sprintf("%s#%d", seed, i)))
		out = append(out, s[:]...)
	}
	return out[:n]
}

// nz forces the first and the last byte to be non-zero.
func nz(b []byte) []byte {
	if len(b) == 0 {
		return b
	}
	if b[0] == 0 {
		b[0] = 0xa1
	}
	if b[len(b)-1] == 0 {
		b[len(b)-1] = 0x1a
	}
	return b
}

// Addr returns a deterministic 20-byte address, first/last byte non-zero.
func Addr(seed string) []byte { return nz(stream("addr:"+seed, 20)) }

// Word returns a deterministic 32-byte word, first/last byte non-zero.
func Word(seed string) []byte { return nz(stream("word:"+seed, 32)) }

// bigIn returns a value in [2^64, 2^120).
func bigIn(seed string) *big.Int {
	v := new(big.Int).SetBytes(stream("big:"+seed, 24))
	return v.Add(v.Mod(v, bigSpan), two64)
}

// u48 returns a value in [2^32, 2^32+2^48): non-zero, above any block time/number,
// below 2^53 (exact as a JSON number and as a signed 64-bit column).
func u48(seed string) uint64 {
	b := stream("u48:"+seed, 8)
	b[0], b[1] = 0, 0
	return 1<<32 + binary.BigEndian.Uint64(b)
}

// FillTx sets every field of tx except Idx, Logs and Traces. Values are non-zero and
// distinct across (blockNum, txIdx, field) and differ per salt:
//   - Hash, From, To, ContractAddress, Input: sha256-derived bytes, first/last byte non-zero
//     (Input has 8..31 bytes);
//   - GasPrice, Value, R, S, MaxPriorityFeePerGas, MaxFeePerGas, EffectiveGasPrice ∈ [2^64, 2^120);
//   - Nonce, Gas, GasUsed ∈ [2^32, 2^49);
//   - small domains that cannot be globally distinct, derived from (block, tx) only so they
//     vary yet are never 0: Type ∈ {1,2}, Status ∈ {3,4,5} (disjoint from Type so a swapped
//     column shows), V ∈ {27,28}, ChainID = 1 + blockNum*16 + txIdx%16 (salt-independent).
func FillTx(tx *Tx, blockNum, txIdx, salt uint64) {
	k := func(field string) string { return fmt.Sprintf("%s|%d|%d|%d", field, salt, blockNum, txIdx) }
	tx.Hash = Word(k("tx.hash"))
	tx.Type = byte(1 + (blockNum+txIdx)%2)
	tx.ChainID = new(big.Int).SetUint64(1 + blockNum*16 + txIdx%16)
	tx.Nonce = u48(k("nonce"))
	tx.GasPrice = bigIn(k("gasPrice"))
	tx.Gas = u48(k("gas"))
	tx.From = Addr(k("from"))
	tx.To = Addr(k("to"))
	tx.Value = bigIn(k("value"))
	tx.Input = nz(stream(k("input"), 8+int(stream(k("inputlen"), 1)[0])%24))
	tx.V = big.NewInt(int64(27 + (blockNum+txIdx+salt)%2))
	tx.R = bigIn(k("r"))
	tx.S = bigIn(k("s"))
	tx.MaxPriorityFeePerGas = bigIn(k("maxPriorityFeePerGas"))
	tx.MaxFeePerGas = bigIn(k("maxFeePerGas"))
	tx.Status = byte(3 + (blockNum+2*txIdx)%3)
	tx.GasUsed = u48(k("gasUsed"))
	tx.EffectiveGasPrice = bigIn(k("effectiveGasPrice"))
	tx.ContractAddress = Addr(k("contractAddress"))
}

// FillBlock sets Time = 1_600_000_000 + Num*12 + salt%7 and Bloom (256 non-zero bytes; Build/Extend/Reorg
// replace it by 256 zero bytes when the block has no logs, as real nodes do;
// derived from Num and salt). Hash/Parent belong to Seal.
func FillBlock(b *Block, salt uint64) {
	b.Time = 1_600_000_000 + b.Num*12 + salt%7
	b.Bloom = stream(fmt.Sprintf("bloom|%d|%d", salt, b.Num), 256)
	for i := range b.Bloom {
		if b.Bloom[i] == 0 {
			b.Bloom[i] = 0xa5
		}
	}
}

// CheckDistinct verifies the filler discipline over a whole chain: no filled field is
// zero/empty and no value occurs in two different (block, tx, field) places. The small
// domains (Type, Status, V, ChainID) are only checked for non-zero; Parent is exempt
// (it equals the previous Hash by construction); logs and traces are caller-owned.
func CheckDistinct(c *Chain) error {
	seen := map[string]string{}
	var err error
	fail := func(f string, a ...any) {
		if err == nil {
			err = fmt.Errorf(f, a...)
		}
	}
	put := func(where, key string) {
		if prev, ok := seen[key]; ok {
			fail("simeth: %s and %s hold the same value %s", prev, where, key)
		}
		seen[key] = where
	}
	bs := func(where string, b []byte) {
		zero := true
		for _, x := range b {
			zero = zero && x == 0
		}
		if zero {
			fail("simeth: %s is zero/empty", where)
			return
		}
		put(where, "x:"+hex.EncodeToString(b))
	}
	num := func(where string, v *big.Int, distinct bool) {
		if v == nil || v.Sign() == 0 {
			fail("simeth: %s is zero", where)
			return
		}
		if distinct {
			put(where, "n:"+v.String())
		}
	}
	u := func(where string, v uint64, distinct bool) { num(where, new(big.Int).SetUint64(v), distinct) }
	for _, b := range c.Blocks {
		w := fmt.Sprintf("b%d.", b.Num)
		bs(w+"Hash", b.Hash)
		if b.hasLogs() {
			bs(w+"Bloom", b.Bloom)
		} else if len(b.Bloom) != 256 || strings.Trim(string(b.Bloom), "\x00") != "" {
			fail("simeth: %sBloom of a block without logs must be 256 zero bytes", w)
		}
		u(w+"Time", b.Time, true)
		for _, t := range b.Txs {
			w := fmt.Sprintf("b%d.t%d.", b.Num, t.Idx)
			bs(w+"Hash", t.Hash)
			bs(w+"From", t.From)
			if t.To != nil {
				bs(w+"To", t.To)
			}
			bs(w+"Input", t.Input)
			bs(w+"ContractAddress", t.ContractAddress)
			u(w+"Type", uint64(t.Type), false)
			u(w+"Status", uint64(t.Status), false)
			num(w+"ChainID", t.ChainID, false)
			num(w+"V", t.V, false)
			u(w+"Nonce", t.Nonce, true)
			u(w+"Gas", t.Gas, true)
			u(w+"GasUsed", t.GasUsed, true)
			num(w+"GasPrice", t.GasPrice, true)
			num(w+"Value", t.Value, true)
			num(w+"R", t.R, true)
			num(w+"S", t.S, true)
			num(w+"MaxPriorityFeePerGas", t.MaxPriorityFeePerGas, true)
			num(w+"MaxFeePerGas", t.MaxFeePerGas, true)
			num(w+"EffectiveGasPrice", t.EffectiveGasPrice, true)
		}
	}
	return err
}
