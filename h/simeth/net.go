package simeth

import (
	"bytes"
	"encoding/json"
	"errors"
	"fmt"
	"io"
	"net/http"
	"sync"
)

// Fault is the error-layer decision for one exchange.
type Fault struct {
	Kind string // "" none | "rpcerror" | "status" | "transport" | "truncate"
	Code int    // rpc error code (default -32000) or HTTP status (default 500)
	Body string // body for "status"; error message for "rpcerror" / "transport" when set
	Keep int    // for "truncate": number of body bytes kept
}

// Exchange is one HTTP round trip.
type Exchange struct {
	Seq   int // arrival order (assigned before Gate)
	Host  string
	Batch bool
	Calls []Call
	// filled by Gate:
	Fault  Fault
	Mutate func(resp any) any // optional: rewrite the response tree before it is marshalled
	// filled by the Net after answering:
	Version int    // node version that answered
	Status  int    // HTTP status; 0 when RoundTrip returned an error
	Body    []byte // bytes actually sent
	Err     error  // transport error returned by RoundTrip, if any
}

// Net routes requests by URL hostname to Nodes. It is safe for concurrent RoundTrips;
// exchanges are appended to the log when they complete (answered or failed), so every
// logged Exchange is final and may be read without synchronisation.
type Net struct {
	Nodes  map[string]*Node   // keyed by URL hostname
	Gate   func(ex *Exchange) // called after the request was read and parsed, before the response is computed
	Closed bool               // when true every RoundTrip returns an error (set it via Close when RoundTrips may be in flight)

	mu  sync.Mutex
	seq int
	log []*Exchange
}

// ErrClosed is returned by RoundTrip once the Net is closed.
var ErrClosed = errors.New("simeth: network closed")

func NewNet() *Net { return &Net{Nodes: map[string]*Node{}} }

func (nt *Net) Add(n *Node) {
	nt.mu.Lock()
	defer nt.mu.Unlock()
	nt.Nodes[n.Name] = n
}

// Close sets Closed under the Net's lock.
func (nt *Net) Close() {
	nt.mu.Lock()
	defer nt.mu.Unlock()
	nt.Closed = true
}

// Exchanges returns a copy of the log, in completion order.
func (nt *Net) Exchanges() []*Exchange {
	nt.mu.Lock()
	defer nt.mu.Unlock()
	return append([]*Exchange(nil), nt.log...)
}

// Reset clears the log and the sequence counter.
func (nt *Net) Reset() {
	nt.mu.Lock()
	defer nt.mu.Unlock()
	nt.log, nt.seq = nil, 0
}

// Install makes nt the process-wide http.DefaultTransport. Call it before jrpc2.New.
func (nt *Net) Install() { http.DefaultTransport = nt }

func (nt *Net) arrive(host string) (*Node, *Exchange, error) {
	nt.mu.Lock()
	defer nt.mu.Unlock()
	if nt.Closed {
		return nil, nil, ErrClosed
	}
	n, ok := nt.Nodes[host]
	if !ok {
		return nil, nil, fmt.Errorf("simeth: dial %s: no such host", host)
	}
	ex := &Exchange{Seq: nt.seq, Host: host}
	nt.seq++
	return n, ex, nil
}

func (nt *Net) done(r *http.Request, ex *Exchange, status int, body []byte, err error) (*http.Response, error) {
	ex.Status, ex.Body, ex.Err = status, body, err
	nt.mu.Lock()
	nt.log = append(nt.log, ex)
	nt.mu.Unlock()
	if err != nil {
		return nil, err
	}
	return &http.Response{
		Status:        fmt.Sprintf("%d %s", status, http.StatusText(status)),
		StatusCode:    status,
		Proto:         "HTTP/1.1",
		ProtoMajor:    1,
		ProtoMinor:    1,
		Header:        http.Header{"Content-Type": []string{"application/json"}},
		Body:          io.NopCloser(bytes.NewReader(body)),
		ContentLength: int64(len(body)),
		Request:       r,
	}, nil
}

func (nt *Net) reject(r *http.Request, ex *Exchange, code int, msg string) (*http.Response, error) {
	body, _ := json.Marshal(rpcFail(nil, code, msg))
	return nt.done(r, ex, http.StatusBadRequest, body, nil)
}

// parseCalls decodes a request body into calls. Never panics.
func parseCalls(raw []byte) (calls []Call, batch bool, err error) {
	var v any
	if err := json.Unmarshal(raw, &v); err != nil {
		return nil, false, fmt.Errorf("parse error: %v", err)
	}
	var elems []any
	switch x := v.(type) {
	case []any:
		if len(x) == 0 {
			return nil, true, errors.New("empty batch")
		}
		elems, batch = x, true
	case map[string]any:
		elems = []any{x}
	default:
		return nil, false, errors.New("request must be an object or an array")
	}
	for _, e := range elems {
		m, ok := e.(map[string]any)
		if !ok {
			return nil, batch, errors.New("request element must be an object")
		}
		c := Call{ID: m["id"]}
		if c.Method, ok = m["method"].(string); !ok {
			return nil, batch, errors.New("method must be a string")
		}
		switch p := m["params"].(type) {
		case nil:
		case []any:
			c.Params = p
		default:
			return nil, batch, errors.New("params must be an array")
		}
		calls = append(calls, c)
	}
	return calls, batch, nil
}

func (nt *Net) RoundTrip(r *http.Request) (*http.Response, error) {
	var raw []byte
	if r.Body != nil {
		// the client streams the body through a pipe: always read it to EOF
		raw, _ = io.ReadAll(r.Body)
		r.Body.Close()
	}
	host := ""
	if r.URL != nil {
		host = r.URL.Hostname()
	}
	node, ex, err := nt.arrive(host)
	if err != nil {
		return nil, err
	}
	calls, batch, err := parseCalls(raw)
	ex.Batch, ex.Calls = batch, calls
	if err != nil {
		_, ex.Version = node.Snapshot()
		return nt.reject(r, ex, -32700, err.Error())
	}
	if nt.Gate != nil {
		nt.Gate(ex) // may block; the chain may change meanwhile
	}
	nt.mu.Lock()
	closed := nt.Closed
	nt.mu.Unlock()
	chain, ver := node.Snapshot()
	ex.Version = ver
	switch {
	case closed:
		return nt.done(r, ex, 0, nil, ErrClosed)
	case r.Context().Err() != nil:
		return nt.done(r, ex, 0, nil, r.Context().Err())
	}

	f := ex.Fault
	switch f.Kind {
	case "transport":
		msg := f.Body
		if msg == "" {
			msg = "connection reset by peer"
		}
		return nt.done(r, ex, 0, nil, fmt.Errorf("simeth: %s: %s", host, msg))
	case "status":
		if f.Code == 0 {
			f.Code = http.StatusInternalServerError
		}
		return nt.done(r, ex, f.Code, []byte(f.Body), nil)
	}

	resps := make([]any, 0, len(calls))
	for _, c := range calls {
		if f.Kind == "rpcerror" {
			code, msg := f.Code, f.Body
			if code == 0 {
				code = -32000
			}
			if msg == "" {
				msg = "simulated rpc error"
			}
			resps = append(resps, rpcFail(c.ID, code, msg))
			continue
		}
		m, err := Answer(chain, c)
		if err != nil {
			return nt.reject(r, ex, -32602, c.Method+": "+err.Error())
		}
		resps = append(resps, m)
	}
	var tree any = resps
	if !batch {
		tree = resps[0]
	}
	if ex.Mutate != nil {
		tree = ex.Mutate(tree)
	}
	body, err := json.Marshal(tree)
	if err != nil { // a Mutate produced something unmarshalable
		return nt.done(r, ex, http.StatusInternalServerError, []byte(`{"error":"simeth: cannot marshal mutated response"}`), nil)
	}
	if f.Kind == "truncate" {
		body = body[:max(0, min(f.Keep, len(body)))]
	}
	return nt.done(r, ex, http.StatusOK, body, nil)
}
