package simeth

import (
	"bytes"
	"encoding/hex"
	"encoding/json"
	"fmt"
	"math/big"
	"strings"
	"sync"
)

// Node serves one chain. Version counts SetChain calls.
type Node struct {
	Name    string
	Version int // incremented by every SetChain (read it via Snapshot when other goroutines may call SetChain)

	mu    sync.Mutex
	chain *Chain
}

func NewNode(name string, c *Chain) *Node { return &Node{Name: name, chain: c} }

// Chain returns the current canonical chain (do not mutate; use SetChain).
func (n *Node) Chain() *Chain {
	c, _ := n.Snapshot()
	return c
}

// Snapshot returns the current chain together with its version.
func (n *Node) Snapshot() (*Chain, int) {
	n.mu.Lock()
	defer n.mu.Unlock()
	return n.chain, n.Version
}

// SetChain replaces the chain (c must be sealed) and increments Version.
func (n *Node) SetChain(c *Chain) {
	n.mu.Lock()
	defer n.mu.Unlock()
	n.chain = c
	n.Version++
}

// Call is one decoded JSON-RPC request object.
type Call struct {
	Method string
	Params []any // decoded JSON params
	ID     any
}

func rpcResult(id, result any) obj { return obj{"jsonrpc": "2.0", "id": id, "result": result} }

func rpcFail(id any, code int, msg string) obj {
	return obj{"jsonrpc": "2.0", "id": id, "error": obj{"code": float64(code), "message": msg}}
}

// Answer computes the response object of one call against chain c (no faults, no
// mutation). A malformed call yields a non-nil error (the Net turns it into HTTP 400).
func Answer(c *Chain, call Call) (map[string]any, error) {
	if c == nil {
		c = &Chain{}
	}
	res, rerr, err := answer(c, call.Method, call.Params)
	switch {
	case err != nil:
		return nil, err
	case rerr != nil:
		return rpcFail(call.ID, rerr.Code, rerr.Msg), nil
	}
	return rpcResult(call.ID, res), nil
}

// ---- self-check ----

type checker struct {
	errs []string
}

func (k *checker) fail(f string, a ...any) {
	if len(k.errs) < 20 {
		k.errs = append(k.errs, fmt.Sprintf(f, a...))
	}
}

// quantity: "0x0" or "0x" + lower-case hex without leading zero.
func (k *checker) q(where string, got any, want *big.Int) {
	s, ok := got.(string)
	if !ok || !strings.HasPrefix(s, "0x") || len(s) < 3 || (len(s) > 3 && s[2] == '0') || s != strings.ToLower(s) {
		k.fail("%s: %v is not a minimal hex quantity", where, got)
		return
	}
	v, ok := new(big.Int).SetString(s[2:], 16)
	if want == nil {
		want = new(big.Int)
	}
	if !ok || v.Cmp(want) != 0 {
		k.fail("%s: got %s want 0x%s", where, s, want.Text(16))
	}
}

func (k *checker) u(where string, got any, want uint64) {
	k.q(where, got, new(big.Int).SetUint64(want))
}

// bytes: even-length lower-case 0x hex; nil model value ↔ JSON null.
func (k *checker) b(where string, got any, want []byte, nullable bool) {
	if got == nil {
		if !nullable || want != nil {
			k.fail("%s: got null want %x", where, want)
		}
		return
	}
	s, ok := got.(string)
	if !ok || !strings.HasPrefix(s, "0x") || s != strings.ToLower(s) {
		k.fail("%s: %v is not a hex string", where, got)
		return
	}
	d, err := hex.DecodeString(s[2:])
	if err != nil || !bytes.Equal(d, want) || (nullable && want == nil) {
		k.fail("%s: got %s want %x", where, s, want)
	}
}

func (k *checker) n(where string, got any, want uint64) {
	if f, ok := got.(float64); !ok || f != float64(want) {
		k.fail("%s: got %v want JSON number %d", where, got, want)
	}
}

// call renders one request through the JSON encoder and decodes it into generic data.
func (k *checker) call(c *Chain, method string, params ...any) any {
	p, _ := json.Marshal(params)
	var dp []any
	json.Unmarshal(p, &dp)
	resp, err := Answer(c, Call{Method: method, Params: dp, ID: "chk"})
	if err != nil {
		k.fail("%s %s: %v", method, p, err)
		return nil
	}
	raw, err := json.Marshal(resp)
	if err != nil {
		k.fail("%s %s: marshal: %v", method, p, err)
		return nil
	}
	var m map[string]any
	if err := json.Unmarshal(raw, &m); err != nil {
		k.fail("%s %s: unmarshal: %v", method, p, err)
		return nil
	}
	if m["jsonrpc"] != "2.0" || m["id"] != "chk" || m["error"] != nil {
		k.fail("%s %s: bad envelope %s", method, p, raw)
	}
	if _, has := m["result"]; !has {
		k.fail("%s %s: no result member", method, p)
	}
	return m["result"]
}

func arr(v any) []any { a, _ := v.([]any); return a }
func mp(v any) obj    { m, _ := v.(map[string]any); return m }

func (k *checker) log(w string, got obj, b *Block, t *Tx, l *Log) {
	k.b(w+"address", got["address"], l.Address, false)
	k.b(w+"data", got["data"], l.Data, false)
	k.u(w+"logIndex", got["logIndex"], l.Idx)
	k.u(w+"blockNumber", got["blockNumber"], b.Num)
	k.b(w+"blockHash", got["blockHash"], b.Hash, false)
	k.b(w+"transactionHash", got["transactionHash"], t.Hash, false)
	k.u(w+"transactionIndex", got["transactionIndex"], t.Idx)
	if got["removed"] != false {
		k.fail("%sremoved: %v", w, got["removed"])
	}
	tps, isArr := got["topics"].([]any)
	if !isArr || len(tps) != len(l.Topics) {
		k.fail("%stopics: got %v want %d topics", w, got["topics"], len(l.Topics))
		return
	}
	for i := range tps {
		k.b(fmt.Sprintf("%stopics[%d]", w, i), tps[i], l.Topics[i], false)
	}
}

func (k *checker) header(w string, got obj, b *Block) {
	k.u(w+"number", got["number"], b.Num)
	k.b(w+"hash", got["hash"], b.Hash, false)
	k.b(w+"parentHash", got["parentHash"], b.Parent, false)
	k.b(w+"logsBloom", got["logsBloom"], b.Bloom, false)
	k.u(w+"timestamp", got["timestamp"], b.Time)
	for _, f := range []string{"miner", "gasLimit", "gasUsed", "difficulty", "extraData", "size", "nonce", "sha3Uncles", "stateRoot", "transactionsRoot", "receiptsRoot"} {
		if _, ok := got[f].(string); !ok {
			k.fail("%s%s: filler missing", w, f)
		}
	}
	if u, ok := got["uncles"].([]any); !ok || len(u) != 0 {
		k.fail("%suncles: %v", w, got["uncles"])
	}
}

func (k *checker) block(c *Chain, b *Block) {
	tag := hexU(b.Num)
	w := fmt.Sprintf("block %d ", b.Num)

	// eth_getBlockByNumber, hashes only
	h := mp(k.call(c, "eth_getBlockByNumber", tag, false))
	k.header(w+"header.", h, b)
	if txs, ok := h["transactions"].([]any); !ok || len(txs) != len(b.Txs) {
		k.fail("%sheader.transactions: %v", w, h["transactions"])
	} else {
		for i, t := range b.Txs {
			k.b(fmt.Sprintf("%sheader.transactions[%d]", w, i), txs[i], t.Hash, false)
		}
	}

	// eth_getBlockByNumber, full
	f := mp(k.call(c, "eth_getBlockByNumber", tag, true))
	k.header(w+"full.", f, b)
	if txs, ok := f["transactions"].([]any); !ok || len(txs) != len(b.Txs) {
		k.fail("%sfull.transactions: %v", w, f["transactions"])
	} else {
		for i, t := range b.Txs {
			w, g := fmt.Sprintf("%sfull.tx[%d].", w, i), mp(txs[i])
			k.b(w+"blockHash", g["blockHash"], b.Hash, false)
			k.u(w+"blockNumber", g["blockNumber"], b.Num)
			k.u(w+"transactionIndex", g["transactionIndex"], t.Idx)
			k.b(w+"hash", g["hash"], t.Hash, false)
			k.u(w+"type", g["type"], uint64(t.Type))
			k.q(w+"chainId", g["chainId"], t.ChainID)
			k.q(w+"chainID", g["chainID"], t.ChainID)
			k.u(w+"nonce", g["nonce"], t.Nonce)
			k.q(w+"gasPrice", g["gasPrice"], t.GasPrice)
			k.u(w+"gas", g["gas"], t.Gas)
			k.b(w+"from", g["from"], t.From, false)
			k.b(w+"to", g["to"], t.To, true)
			k.q(w+"value", g["value"], t.Value)
			k.b(w+"input", g["input"], t.Input, false)
			k.q(w+"v", g["v"], t.V)
			k.q(w+"r", g["r"], t.R)
			k.q(w+"s", g["s"], t.S)
			k.q(w+"maxPriorityFeePerGas", g["maxPriorityFeePerGas"], t.MaxPriorityFeePerGas)
			k.q(w+"maxFeePerGas", g["maxFeePerGas"], t.MaxFeePerGas)
		}
	}

	// eth_getBlockReceipts
	rs, ok := k.call(c, "eth_getBlockReceipts", tag).([]any)
	if !ok || len(rs) != len(b.Txs) {
		k.fail("%sreceipts: got %d want %d", w, len(rs), len(b.Txs))
	} else {
		cum := uint64(0)
		for i, t := range b.Txs {
			w, g := fmt.Sprintf("%sreceipt[%d].", w, i), mp(rs[i])
			cum += t.GasUsed
			k.b(w+"blockHash", g["blockHash"], b.Hash, false)
			k.u(w+"blockNumber", g["blockNumber"], b.Num)
			k.b(w+"transactionHash", g["transactionHash"], t.Hash, false)
			k.u(w+"transactionIndex", g["transactionIndex"], t.Idx)
			k.u(w+"type", g["type"], uint64(t.Type))
			k.b(w+"from", g["from"], t.From, false)
			k.b(w+"to", g["to"], t.To, true)
			k.u(w+"status", g["status"], uint64(t.Status))
			k.u(w+"gasUsed", g["gasUsed"], t.GasUsed)
			k.u(w+"cumulativeGasUsed", g["cumulativeGasUsed"], cum)
			k.q(w+"effectiveGasPrice", g["effectiveGasPrice"], t.EffectiveGasPrice)
			k.b(w+"contractAddress", g["contractAddress"], t.ContractAddress, true)
			k.b(w+"logsBloom", g["logsBloom"], b.Bloom, false)
			ls, isArr := g["logs"].([]any)
			if !isArr || len(ls) != len(t.Logs) {
				k.fail("%slogs: got %v want %d", w, g["logs"], len(t.Logs))
				continue
			}
			for j, l := range t.Logs {
				k.log(fmt.Sprintf("%slog[%d].", w, j), mp(ls[j]), b, t, l)
			}
		}
	}

	// trace_block
	type tt struct {
		t  *Tx
		tr *Trace
	}
	var want []tt
	for _, t := range b.Txs {
		for _, tr := range t.Traces {
			want = append(want, tt{t, tr})
		}
	}
	ts, ok := k.call(c, "trace_block", tag).([]any)
	if !ok || len(ts) != len(want) {
		k.fail("%straces: got %d want %d", w, len(ts), len(want))
	} else {
		for i, x := range want {
			w, g := fmt.Sprintf("%strace[%d].", w, i), mp(ts[i])
			a := mp(g["action"])
			k.b(w+"action.from", a["from"], x.tr.From, false)
			k.b(w+"action.to", a["to"], x.tr.To, false)
			k.q(w+"action.value", a["value"], x.tr.Value)
			if a["callType"] != x.tr.CallType {
				k.fail("%saction.callType: got %v want %s", w, a["callType"], x.tr.CallType)
			}
			k.b(w+"blockHash", g["blockHash"], b.Hash, false)
			k.n(w+"blockNumber", g["blockNumber"], b.Num)
			k.b(w+"transactionHash", g["transactionHash"], x.t.Hash, false)
			k.n(w+"transactionPosition", g["transactionPosition"], x.t.Idx)
			k.n(w+"subtraces", g["subtraces"], 0)
			if g["type"] != "call" || mp(g["result"])["gasUsed"] != "0x1" || arr(g["traceAddress"]) == nil {
				k.fail("%sfiller fields wrong: %v", w, g)
			}
		}
	}

	// eth_getLogs, unfiltered, this block only
	type tl struct {
		t *Tx
		l *Log
	}
	var wl []tl
	for _, t := range b.Txs {
		for _, l := range t.Logs {
			wl = append(wl, tl{t, l})
		}
	}
	ls, ok := k.call(c, "eth_getLogs", obj{"fromBlock": tag, "toBlock": tag}).([]any)
	if !ok || len(ls) != len(wl) {
		k.fail("%sgetLogs: got %d want %d", w, len(ls), len(wl))
	} else {
		for i, x := range wl {
			k.log(fmt.Sprintf("%sgetLogs[%d].", w, i), mp(ls[i]), b, x.t, x.l)
		}
	}
}

// CheckRender renders every block of c through every method, decodes the JSON with
// encoding/json into generic maps and compares each served field with the model.
func CheckRender(c *Chain) error {
	k := &checker{}
	if !c.Sealed() {
		k.fail("chain is not sealed")
	}
	total := 0
	for i, b := range c.Blocks {
		if b.Num != uint64(i) {
			k.fail("Blocks[%d].Num = %d", i, b.Num)
			continue
		}
		k.block(c, b)
		for _, t := range b.Txs {
			total += len(t.Logs)
		}
	}
	if head := c.Head(); head != nil {
		k.header("latest.", mp(k.call(c, "eth_getBlockByNumber", "latest", false)), head)
		beyond := hexU(head.Num + 1)
		for _, m := range []string{"eth_getBlockReceipts", "trace_block"} {
			if r := k.call(c, m, beyond); r != nil {
				k.fail("%s beyond head: got %v want null", m, r)
			}
		}
		if r := k.call(c, "eth_getBlockByNumber", beyond, true); r != nil {
			k.fail("eth_getBlockByNumber beyond head: got %v want null", r)
		}
		all, ok := k.call(c, "eth_getLogs", obj{"fromBlock": "earliest", "toBlock": hexU(head.Num + 5)}).([]any)
		if !ok || len(all) != total {
			k.fail("getLogs whole chain: got %d want %d", len(all), total)
		} else {
			i := 0
			for _, b := range c.Blocks {
				for _, t := range b.Txs {
					for _, l := range t.Logs {
						k.log(fmt.Sprintf("getLogs all[%d].", i), mp(all[i]), b, t, l)
						i++
					}
				}
			}
		}
	}
	if len(k.errs) > 0 {
		return fmt.Errorf("simeth.CheckRender: %s", strings.Join(k.errs, "; "))
	}
	return nil
}
