package simeth

import (
	"encoding/hex"
	"fmt"
	"math/big"
	"strconv"
	"strings"
)

// Rendering produces plain encoding/json-style trees: objects are map[string]any,
// arrays are []any, quantities/bytes are strings, JSON numbers are float64.

type obj = map[string]any

func hexU(v uint64) string { return "0x" + strconv.FormatUint(v, 16) }

func hexI(v *big.Int) string {
	if v == nil || v.Sign() <= 0 {
		return "0x0"
	}
	return "0x" + v.Text(16)
}

func hexB(b []byte) string { return "0x" + hex.EncodeToString(b) }

func hexOrNull(b []byte) any {
	if b == nil {
		return nil
	}
	return hexB(b)
}

var (
	fillMiner = hexB(Addr("filler.miner"))
	fillWord  = func(s string) string { return hexB(Word("filler." + s)) }
)

func renderBlock(b *Block, full bool) obj {
	txs := make([]any, 0, len(b.Txs))
	for _, t := range b.Txs {
		if full {
			txs = append(txs, renderTx(b, t))
		} else {
			txs = append(txs, hexB(t.Hash))
		}
	}
	return obj{
		"number":       hexU(b.Num),
		"hash":         hexB(b.Hash),
		"parentHash":   hexB(b.Parent),
		"logsBloom":    hexB(b.Bloom),
		"timestamp":    hexU(b.Time),
		"transactions": txs,
		// filler fields real nodes send and shovel ignores
		"miner":            fillMiner,
		"gasLimit":         "0x1c9c380",
		"gasUsed":          "0x5208",
		"difficulty":       "0x0",
		"extraData":        "0x",
		"size":             "0x220",
		"nonce":            "0x0000000000000000",
		"sha3Uncles":       fillWord("sha3Uncles"),
		"stateRoot":        fillWord("stateRoot"),
		"transactionsRoot": fillWord("transactionsRoot"),
		"receiptsRoot":     fillWord("receiptsRoot"),
		"uncles":           []any{},
	}
}

func renderTx(b *Block, t *Tx) obj {
	return obj{
		"blockHash":            hexB(b.Hash),
		"blockNumber":          hexU(b.Num),
		"transactionIndex":     hexU(t.Idx),
		"hash":                 hexB(t.Hash),
		"type":                 hexU(uint64(t.Type)),
		"chainId":              hexI(t.ChainID),
		"chainID":              hexI(t.ChainID), // shovel's struct tag
		"nonce":                hexU(t.Nonce),
		"gasPrice":             hexI(t.GasPrice),
		"gas":                  hexU(t.Gas),
		"from":                 hexB(t.From),
		"to":                   hexOrNull(t.To),
		"value":                hexI(t.Value),
		"input":                hexB(t.Input),
		"v":                    hexI(t.V),
		"r":                    hexI(t.R),
		"s":                    hexI(t.S),
		"maxPriorityFeePerGas": hexI(t.MaxPriorityFeePerGas),
		"maxFeePerGas":         hexI(t.MaxFeePerGas),
	}
}

func renderLog(b *Block, t *Tx, l *Log) obj {
	topics := make([]any, 0, len(l.Topics))
	for _, tp := range l.Topics {
		topics = append(topics, hexB(tp))
	}
	return obj{
		"address":          hexB(l.Address),
		"topics":           topics,
		"data":             hexB(l.Data),
		"blockNumber":      hexU(b.Num),
		"blockHash":        hexB(b.Hash),
		"transactionHash":  hexB(t.Hash),
		"transactionIndex": hexU(t.Idx),
		"logIndex":         hexU(l.Idx),
		"removed":          false,
	}
}

func renderReceipts(b *Block) []any {
	out := make([]any, 0, len(b.Txs))
	cum := uint64(0)
	for _, t := range b.Txs {
		cum += t.GasUsed
		logs := make([]any, 0, len(t.Logs))
		for _, l := range t.Logs {
			logs = append(logs, renderLog(b, t, l))
		}
		out = append(out, obj{
			"blockHash":         hexB(b.Hash),
			"blockNumber":       hexU(b.Num),
			"transactionHash":   hexB(t.Hash),
			"transactionIndex":  hexU(t.Idx),
			"type":              hexU(uint64(t.Type)),
			"from":              hexB(t.From),
			"to":                hexOrNull(t.To),
			"status":            hexU(uint64(t.Status)),
			"gasUsed":           hexU(t.GasUsed),
			"cumulativeGasUsed": hexU(cum),
			"effectiveGasPrice": hexI(t.EffectiveGasPrice),
			"contractAddress":   hexOrNull(t.ContractAddress),
			"logsBloom":         hexB(b.Bloom),
			"logs":              logs,
		})
	}
	return out
}

func renderTraces(b *Block) []any {
	out := []any{}
	for _, t := range b.Txs {
		for _, tr := range t.Traces {
			out = append(out, obj{
				"action": obj{
					"from":     hexB(tr.From),
					"to":       hexB(tr.To),
					"value":    hexI(tr.Value),
					"callType": tr.CallType,
					"gas":      "0x1",
					"input":    "0x",
				},
				"blockHash":           hexB(b.Hash),
				"blockNumber":         float64(b.Num),
				"transactionHash":     hexB(t.Hash),
				"transactionPosition": float64(t.Idx),
				"subtraces":           float64(0),
				"traceAddress":        []any{},
				"type":                "call",
				"result":              obj{"gasUsed": "0x1", "output": "0x"},
			})
		}
	}
	return out
}

// badParams is the error for requests of the wrong shape (→ HTTP 400).
type badParams struct{ msg string }

func (e *badParams) Error() string { return e.msg }

func bad(f string, a ...any) error { return &badParams{fmt.Sprintf(f, a...)} }

// rpcError is an in-band JSON-RPC error object.
type rpcError struct {
	Code int
	Msg  string
}

// blockTag parses "latest" | "earliest" | hex quantity. ok=false means "no such block".
func blockTag(c *Chain, v any) (n uint64, ok bool, err error) {
	s, isStr := v.(string)
	if !isStr {
		return 0, false, bad("block number must be a string")
	}
	switch s {
	case "latest", "pending", "safe", "finalized":
		if h := c.Head(); h != nil {
			return h.Num, true, nil
		}
		return 0, false, nil
	case "earliest":
		return 0, len(c.Blocks) > 0, nil
	}
	if len(s) < 3 || len(s) > 18 || !(strings.HasPrefix(s, "0x") || strings.HasPrefix(s, "0X")) {
		return 0, false, bad("invalid block number %q", s)
	}
	n, perr := strconv.ParseUint(s[2:], 16, 64)
	if perr != nil {
		return 0, false, bad("invalid block number %q", s)
	}
	return n, n < uint64(len(c.Blocks)), nil
}

func hexString(v any, what string) (string, error) {
	s, ok := v.(string)
	if !ok {
		return "", bad("%s must be a hex string", what)
	}
	s = strings.ToLower(s)
	if !strings.HasPrefix(s, "0x") || len(s)%2 != 0 {
		return "", bad("%s: invalid hex %q", what, s)
	}
	if _, err := hex.DecodeString(s[2:]); err != nil {
		return "", bad("%s: invalid hex %q", what, s)
	}
	return s, nil
}

// hexSet parses null | string | [string|null …]; nil result = wildcard.
func hexSet(v any, what string) ([]string, error) {
	switch x := v.(type) {
	case nil:
		return nil, nil
	case string:
		s, err := hexString(x, what)
		return []string{s}, err
	case []any:
		var out []string
		for _, e := range x {
			if e == nil { // geth: a null inside an alternative list is a wildcard
				return nil, nil
			}
			s, err := hexString(e, what)
			if err != nil {
				return nil, err
			}
			out = append(out, s)
		}
		return out, nil // empty array → nil → wildcard
	}
	return nil, bad("%s must be null, a string or an array", what)
}

func member(set []string, b []byte) bool {
	s := hexB(b)
	for _, x := range set {
		if x == s {
			return true
		}
	}
	return false
}

func getLogs(c *Chain, params []any) (any, *rpcError, error) {
	if len(params) != 1 {
		return nil, nil, bad("eth_getLogs wants 1 param")
	}
	f, ok := params[0].(map[string]any)
	if !ok {
		return nil, nil, bad("eth_getLogs filter must be an object")
	}
	addrs, err := hexSet(f["address"], "address")
	if err != nil {
		return nil, nil, err
	}
	var topics [][]string
	switch x := f["topics"].(type) {
	case nil:
	case []any:
		for i, p := range x {
			set, err := hexSet(p, fmt.Sprintf("topics[%d]", i))
			if err != nil {
				return nil, nil, err
			}
			topics = append(topics, set)
		}
	default:
		return nil, nil, bad("topics must be null or an array")
	}
	out := []any{}
	if len(c.Blocks) == 0 {
		return out, nil, nil
	}
	var from, to uint64
	if bh, has := f["blockHash"]; has && bh != nil {
		s, err := hexString(bh, "blockHash")
		if err != nil {
			return nil, nil, err
		}
		found := false
		for _, b := range c.Blocks {
			if hexB(b.Hash) == s {
				from, to, found = b.Num, b.Num, true
			}
		}
		if !found {
			return nil, &rpcError{-32000, "unknown block"}, nil
		}
	} else {
		bound := func(key string) (uint64, error) {
			v, has := f[key]
			if !has || v == nil {
				v = "latest"
			}
			n, _, err := blockTag(c, v)
			return n, err
		}
		if from, err = bound("fromBlock"); err != nil {
			return nil, nil, err
		}
		if to, err = bound("toBlock"); err != nil {
			return nil, nil, err
		}
	}
	if head := c.Head().Num; to > head {
		to = head // a toBlock beyond the head is not an error
	}
	for n := from; n <= to && n < uint64(len(c.Blocks)); n++ {
		b := c.Blocks[n]
		for _, t := range b.Txs {
		logs:
			for _, l := range t.Logs {
				if addrs != nil && !member(addrs, l.Address) {
					continue
				}
				for i, set := range topics {
					if set == nil {
						continue
					}
					if i >= len(l.Topics) || !member(set, l.Topics[i]) {
						continue logs
					}
				}
				out = append(out, renderLog(b, t, l))
			}
		}
	}
	return out, nil, nil
}

// answer computes the result of one call against c: (result, nil, nil) on success,
// (nil, rpcError, nil) for an in-band error, (nil, nil, err) for a malformed request.
func answer(c *Chain, method string, params []any) (any, *rpcError, error) {
	one := func() (*Block, error) {
		if len(params) < 1 {
			return nil, bad("%s: missing block number", method)
		}
		n, ok, err := blockTag(c, params[0])
		if err != nil || !ok {
			return nil, err
		}
		return c.Blocks[n], nil
	}
	switch method {
	case "eth_getBlockByNumber":
		if len(params) != 2 {
			return nil, nil, bad("eth_getBlockByNumber wants 2 params")
		}
		full, ok := params[1].(bool)
		if !ok {
			return nil, nil, bad("eth_getBlockByNumber: second param must be a bool")
		}
		b, err := one()
		if err != nil || b == nil {
			return nil, nil, err
		}
		return renderBlock(b, full), nil, nil
	case "eth_getLogs":
		return getLogs(c, params)
	case "eth_getBlockReceipts", "trace_block":
		if len(params) != 1 {
			return nil, nil, bad("%s wants 1 param", method)
		}
		b, err := one()
		if err != nil || b == nil {
			return nil, nil, err
		}
		if method == "trace_block" {
			return renderTraces(b), nil, nil
		}
		return renderReceipts(b), nil, nil
	}
	return nil, &rpcError{-32601, "the method " + method + " does not exist/is not available"}, nil
}
