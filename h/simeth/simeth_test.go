package simeth_test

import (
	"bytes"
	"context"
	"encoding/hex"
	"encoding/json"
	"fmt"
	"io"
	"math/big"
	"net/http"
	"reflect"
	"strings"
	"sync"
	"testing"
	"time"

	"github.com/indexsupply/shovel/eth"
	"github.com/indexsupply/shovel/jrpc2"
	"github.com/indexsupply/shovel/shovel/glf"

	"verifh/simeth"
)

const url1 = "http://node1"

var (
	a1, a2         = simeth.Addr("A1"), simeth.Addr("A2")
	t1, t2, t3, t4 = simeth.Word("T1"), simeth.Word("T2"), simeth.Word("T3"), simeth.Word("T4")
	t9             = simeth.Word("T9")
	bg             = context.Background()
)

func hx(b []byte) string { return "0x" + hex.EncodeToString(b) }

func lg(addr []byte, data string, topics ...[]byte) *simeth.Log {
	return &simeth.Log{Address: addr, Topics: topics, Data: []byte(data), Tag: data}
}

func tr(seed, ct string) *simeth.Trace {
	v := new(big.Int).SetBytes(simeth.Word("v" + seed)[:12])
	return &simeth.Trace{From: simeth.Addr("f" + seed), To: simeth.Addr("t" + seed), Value: v, CallType: ct}
}

// blocks: 0 genesis, 1 empty, 2 one tx, 3 two txs, 4 one tx without logs, 5 empty.
// logs (block/logIdx): 2/0 A1 []; 2/1 A2 [T1]; 3/0 A1 [T1,T2]; 3/1 A2 [T1,T2,T3]; 3/2 A1 [T9,T2,T3,T4]
func testSpecs() []simeth.BlockSpec {
	return []simeth.BlockSpec{
		{},
		{Txs: []simeth.TxSpec{{
			Logs:   []*simeth.Log{lg(a1, ""), lg(a2, "one", t1)},
			Traces: []*simeth.Trace{tr("2a", "call")},
		}}},
		{Txs: []simeth.TxSpec{
			{
				Logs:   []*simeth.Log{lg(a1, strings.Repeat("x", 32), t1, t2), lg(a2, strings.Repeat("y", 64), t1, t2, t3)},
				Traces: []*simeth.Trace{tr("3a", "call"), tr("3b", "delegatecall")},
			},
			{
				Logs:   []*simeth.Log{lg(a1, "four", t9, t2, t3, t4)},
				Traces: []*simeth.Trace{tr("3c", "staticcall")},
				NoTo:   true,
			},
		}},
		{Txs: []simeth.TxSpec{{Traces: []*simeth.Trace{tr("4a", "call")}}}},
		{},
	}
}

func world(t *testing.T) (*simeth.Net, *simeth.Node, *simeth.Chain) {
	t.Helper()
	ch := simeth.Build(testSpecs(), 1)
	nt := simeth.NewNet()
	n := simeth.NewNode("node1", ch)
	nt.Add(n)
	nt.Install()
	return nt, n, ch
}

func client() *jrpc2.Client { return jrpc2.New(url1).WithPollDuration(time.Hour) }

// ---- independent model-side filter used as the expectation in test 1 ----

func matches(l *simeth.Log, addrs []string, topics [][]string) bool {
	in := func(set []string, b []byte) bool {
		for _, s := range set {
			if strings.EqualFold(s, hx(b)) {
				return true
			}
		}
		return false
	}
	if len(addrs) > 0 && !in(addrs, l.Address) {
		return false
	}
	for i, set := range topics {
		if len(set) == 0 {
			continue
		}
		if i >= len(l.Topics) || !in(set, l.Topics[i]) {
			return false
		}
	}
	return true
}

type cmp struct {
	t *testing.T
	w string
}

func (c cmp) b(what string, got, want []byte) {
	c.t.Helper()
	if !bytes.Equal(got, want) {
		c.t.Errorf("%s %s: got %x want %x", c.w, what, got, want)
	}
}

func (c cmp) u(what string, got, want uint64) {
	c.t.Helper()
	if got != want {
		c.t.Errorf("%s %s: got %d want %d", c.w, what, got, want)
	}
}

func (c cmp) i(what string, got *big.Int, want *big.Int) {
	c.t.Helper()
	if got.Cmp(want) != 0 {
		c.t.Errorf("%s %s: got %s want %s", c.w, what, got, want)
	}
}

func (c cmp) logs(got eth.Logs, want []*simeth.Log) {
	c.t.Helper()
	if len(got) != len(want) {
		c.t.Errorf("%s: got %d logs want %d", c.w, len(got), len(want))
		return
	}
	for i, l := range want {
		g := got[i]
		c.u("log.Idx", uint64(g.Idx), l.Idx)
		c.b("log.Address", g.Address, l.Address)
		c.b("log.Data", g.Data, l.Data)
		if len(g.Topics) != len(l.Topics) {
			c.t.Errorf("%s log %d: got %d topics want %d", c.w, l.Idx, len(g.Topics), len(l.Topics))
			continue
		}
		for j := range l.Topics {
			c.b("log.Topic", g.Topics[j], l.Topics[j])
		}
	}
}

// checkGet drives the real client and compares everything it decoded with the model.
func checkGet(t *testing.T, ch *simeth.Chain, fields, addrs []string, topics [][]string, start, limit uint64) {
	t.Helper()
	f := glf.New(fields, addrs, topics)
	name := fmt.Sprintf("%v/%s/%d+%d", fields, f, start, limit)
	blocks, err := client().Get(bg, url1, f, start, limit)
	if err != nil {
		t.Errorf("%s: %v", name, err)
		return
	}
	if uint64(len(blocks)) != limit {
		t.Errorf("%s: got %d blocks want %d", name, len(blocks), limit)
		return
	}
	for i := range blocks {
		g, m := &blocks[i], ch.Blocks[start+uint64(i)]
		c := cmp{t, fmt.Sprintf("%s block %d", name, m.Num)}
		c.u("Num", g.Num(), m.Num)

		// which model txs must appear, and with which logs
		wantTx := map[uint64]bool{}
		wantLogs := map[uint64][]*simeth.Log{}
		hasData := false
		for _, tx := range m.Txs {
			if f.UseBlocks {
				wantTx[tx.Idx] = true
			}
			switch {
			case f.UseReceipts:
				wantTx[tx.Idx], hasData = true, true
				wantLogs[tx.Idx] = tx.Logs
			case f.UseLogs:
				for _, l := range tx.Logs {
					if matches(l, addrs, topics) {
						wantTx[tx.Idx], hasData = true, true
						wantLogs[tx.Idx] = append(wantLogs[tx.Idx], l)
					}
				}
			case f.UseTraces:
				if len(tx.Traces) > 0 {
					wantTx[tx.Idx], hasData = true, true
				}
			}
		}

		switch {
		case f.UseHeaders || f.UseBlocks:
			c.b("Hash", g.Header.Hash, m.Hash)
			c.b("Parent", g.Header.Parent, m.Parent)
			c.b("LogsBloom", g.Header.LogsBloom, m.Bloom)
			c.u("Time", uint64(g.Header.Time), m.Time)
		case hasData:
			c.b("Hash", g.Header.Hash, m.Hash)
		default:
			c.b("Hash", g.Header.Hash, nil)
		}

		if len(g.Txs) != len(wantTx) {
			t.Errorf("%s: got %d txs want %d", c.w, len(g.Txs), len(wantTx))
			continue
		}
		for j := range g.Txs {
			gt := &g.Txs[j]
			if !wantTx[uint64(gt.Idx)] {
				t.Errorf("%s: unexpected tx %d", c.w, gt.Idx)
				continue
			}
			mt := m.Txs[gt.Idx]
			c := cmp{t, fmt.Sprintf("%s tx %d", c.w, mt.Idx)}
			c.b("Hash", gt.PrecompHash, mt.Hash)
			c.b("Hash()", gt.Hash(), mt.Hash)
			if f.UseBlocks {
				c.u("Type", uint64(gt.Type), uint64(mt.Type))
				c.i("ChainID", gt.ChainID.ToBig(), mt.ChainID)
				c.u("Nonce", uint64(gt.Nonce), mt.Nonce)
				c.i("GasPrice", gt.GasPrice.ToBig(), mt.GasPrice)
				c.u("GasLimit", uint64(gt.GasLimit), mt.Gas)
				c.b("From", gt.From, mt.From)
				c.b("To", gt.To, mt.To)
				c.i("Value", gt.Value.ToBig(), mt.Value)
				c.b("Data", gt.Data, mt.Input)
				c.i("V", gt.V.ToBig(), mt.V)
				c.i("R", gt.R.ToBig(), mt.R)
				c.i("S", gt.S.ToBig(), mt.S)
				c.i("MaxPriorityFeePerGas", gt.MaxPriorityFeePerGas.ToBig(), mt.MaxPriorityFeePerGas)
				c.i("MaxFeePerGas", gt.MaxFeePerGas.ToBig(), mt.MaxFeePerGas)
			}
			switch {
			case f.UseReceipts:
				c.u("Type", uint64(gt.Type), uint64(mt.Type))
				c.b("From", gt.From, mt.From)
				c.b("To", gt.To, mt.To)
				c.u("Status", uint64(gt.Status), uint64(mt.Status))
				c.u("GasUsed", uint64(gt.GasUsed), mt.GasUsed)
				c.i("EffectiveGasPrice", gt.EffectiveGasPrice.ToBig(), mt.EffectiveGasPrice)
				c.b("ContractAddress", gt.ContractAddress, mt.ContractAddress)
				c.logs(gt.Logs, wantLogs[mt.Idx])
			case f.UseLogs:
				c.logs(gt.Logs, wantLogs[mt.Idx])
			case f.UseTraces:
				if len(gt.TraceActions) != len(mt.Traces) {
					t.Errorf("%s: got %d traces want %d", c.w, len(gt.TraceActions), len(mt.Traces))
					continue
				}
				for k, mtr := range mt.Traces {
					ga := gt.TraceActions[k]
					c.u("trace.Idx", ga.Idx, uint64(k))
					c.b("trace.From", ga.From, mtr.From)
					c.b("trace.To", ga.To, mtr.To)
					c.i("trace.Value", ga.Value.ToBig(), mtr.Value)
					if ga.CallType != mtr.CallType {
						t.Errorf("%s trace.CallType: got %s want %s", c.w, ga.CallType, mtr.CallType)
					}
				}
			}
		}
	}
}

// 1. the real client decodes exactly the model, for every data plan.
func TestRealClientPlans(t *testing.T) {
	_, _, ch := world(t)
	head := ch.Head().Num
	plans := [][]string{
		{"block_num"},
		{"tx_input"},
		{"log_idx"},
		{"tx_status"},
		{"block_hash", "block_num", "tx_hash", "tx_idx", "log_addr"},
		{"tx_status", "tx_input"},
		{"block_time", "log_idx"},
		{"tx_hash"},
		{"tx_hash", "tx_to"},
		{"tx_hash", "block_time"},
		{"tx_input", "log_idx"},
		{"block_time", "tx_status"},
	}
	for _, p := range plans {
		checkGet(t, ch, p, nil, nil, 0, head+1)
		checkGet(t, ch, p, nil, nil, 2, 2)
		checkGet(t, ch, p, nil, nil, 3, 1)
	}
	// pushed-down address / topic restrictions
	checkGet(t, ch, []string{"log_idx"}, []string{hx(a1)}, nil, 1, 4)
	checkGet(t, ch, []string{"log_idx"}, nil, [][]string{{hx(t1)}}, 1, 4)
	checkGet(t, ch, []string{"log_idx", "block_time"}, []string{hx(a2), hx(a1)}, [][]string{{hx(t1), hx(t9)}}, 0, head+1)
	checkGet(t, ch, []string{"log_idx", "tx_input"}, []string{hx(a2)}, [][]string{{hx(t9)}}, 2, 2) // nothing matches
	// traces: the client rejects a block without traces, so only blocks 2..4
	checkGet(t, ch, []string{"trace_action_from"}, nil, nil, 2, 3)
	checkGet(t, ch, []string{"trace_action_from", "trace_action_to", "trace_action_value", "trace_action_call_type", "tx_input"}, nil, nil, 2, 3)
	checkGet(t, ch, []string{"trace_action_value", "block_time"}, nil, nil, 3, 2)
	// trace_block of a block without traces is []: the client either rejects it ("empty result", the
	// behaviour before fix C07-07) or returns the block with nothing attached (after it)
	if bs, err := client().Get(bg, url1, glf.New([]string{"trace_action_from"}, nil, nil), 1, 1); err != nil && !strings.Contains(err.Error(), "empty result") ||
		err == nil && (len(bs) != 1 || len(bs[0].Txs) != 0) {
		t.Errorf("trace_block of a block without traces must be []: got %d blocks, %v", len(bs), err)
	}

	c := client()
	n, h, err := c.Latest(bg, url1, 0)
	if err != nil || n != head || !bytes.Equal(h, ch.Head().Hash) {
		t.Errorf("Latest: %d %x %v", n, h, err)
	}
	for _, b := range ch.Blocks {
		h, err := c.Hash(bg, url1, b.Num)
		if err != nil || !bytes.Equal(h, b.Hash) {
			t.Errorf("Hash(%d): %x %v want %x", b.Num, h, err, b.Hash)
		}
	}
	// beyond the head: headers come back null → the client's validation rejects the segment
	if _, err := client().Get(bg, url1, glf.New([]string{"block_num"}, nil, nil), head, 2); err == nil {
		t.Errorf("headers beyond head: want an error")
	}
}

// ---- raw access ----

func post(t *testing.T, nt *simeth.Net, body string) (int, any) {
	t.Helper()
	req, _ := http.NewRequest("POST", url1, strings.NewReader(body))
	resp, err := (&http.Client{Transport: nt}).Do(req)
	if err != nil {
		t.Fatalf("post %s: %v", body, err)
	}
	defer resp.Body.Close()
	raw, _ := io.ReadAll(resp.Body)
	var v any
	if err := json.Unmarshal(raw, &v); err != nil {
		t.Fatalf("post %s: response not JSON: %s", body, raw)
	}
	if ct := resp.Header.Get("Content-Type"); ct != "application/json" {
		t.Errorf("content-type %q", ct)
	}
	return resp.StatusCode, v
}

func js(v any) string { b, _ := json.Marshal(v); return string(b) }

// 2. eth_getLogs filter semantics.
func TestGetLogsFilter(t *testing.T) {
	nt, _, _ := world(t)
	A1, A2, T1, T2, T3, T4, T9 := hx(a1), hx(a2), hx(t1), hx(t2), hx(t3), hx(t4), hx(t9)
	all := "2/0 2/1 3/0 3/1 3/2"
	type o = map[string]any
	cases := []struct {
		name string
		f    o
		want string
	}{
		{"no restriction, no range = latest only", o{}, ""},
		{"full range", o{"fromBlock": "0x0", "toBlock": "0x5"}, all},
		{"earliest..latest", o{"fromBlock": "earliest", "toBlock": "latest"}, all},
		{"address null", o{"fromBlock": "0x0", "address": nil}, all},
		{"address []", o{"fromBlock": "0x0", "address": []any{}}, all},
		{"address string", o{"fromBlock": "0x0", "address": A1}, "2/0 3/0 3/2"},
		{"address upper case", o{"fromBlock": "0x0", "address": "0x" + strings.ToUpper(A1[2:])}, "2/0 3/0 3/2"},
		{"address [A2]", o{"fromBlock": "0x0", "address": []any{A2}}, "2/1 3/1"},
		{"address [A1,A2]", o{"fromBlock": "0x0", "address": []any{A1, A2}}, all},
		{"address unknown", o{"fromBlock": "0x0", "address": hx(simeth.Addr("nobody"))}, ""},
		{"topics null", o{"fromBlock": "0x0", "topics": nil}, all},
		{"topics []", o{"fromBlock": "0x0", "topics": []any{}}, all},
		{"topics [T1]", o{"fromBlock": "0x0", "topics": []any{T1}}, "2/1 3/0 3/1"},
		{"topics [[T1]]", o{"fromBlock": "0x0", "topics": []any{[]any{T1}}}, "2/1 3/0 3/1"},
		{"topics [[T1,T9]]", o{"fromBlock": "0x0", "topics": []any{[]any{T1, T9}}}, "2/1 3/0 3/1 3/2"},
		{"topics upper case", o{"fromBlock": "0x0", "topics": []any{"0x" + strings.ToUpper(T9[2:])}}, "3/2"},
		{"topics [null,T2]", o{"fromBlock": "0x0", "topics": []any{nil, T2}}, "3/0 3/1 3/2"},
		{"topics [null,[T2]]", o{"fromBlock": "0x0", "topics": []any{nil, []any{T2}}}, "3/0 3/1 3/2"},
		{"topics [[],T2] empty array = any", o{"fromBlock": "0x0", "topics": []any{[]any{}, T2}}, "3/0 3/1 3/2"},
		{"topics [T1,null,T3]", o{"fromBlock": "0x0", "topics": []any{T1, nil, T3}}, "3/1"},
		{"topics [T1,[T2],[T3,T4]]", o{"fromBlock": "0x0", "topics": []any{T1, []any{T2}, []any{T3, T4}}}, "3/1"},
		{"topics [null,null,null,T4]", o{"fromBlock": "0x0", "topics": []any{nil, nil, nil, T4}}, "3/2"},
		{"topics [null,null,null,[T3,T4]]", o{"fromBlock": "0x0", "topics": []any{nil, nil, nil, []any{T3, T4}}}, "3/2"},
		{"topics [null,null] only null positions never exclude", o{"fromBlock": "0x0", "topics": []any{nil, nil}}, all},
		{"topics [T2] wrong position", o{"fromBlock": "0x0", "topics": []any{T2}}, ""},
		{"topics [T1,T2,T3,T4] fewer topics than positions", o{"fromBlock": "0x0", "topics": []any{T1, T2, T3, T4}}, ""},
		{"topics 5 positions, last non-null", o{"fromBlock": "0x0", "topics": []any{nil, nil, nil, nil, T4}}, ""},
		{"topics [[null,T1]] nested null = any", o{"fromBlock": "0x0", "topics": []any{[]any{nil, T1}}}, all},
		{"address + topics", o{"fromBlock": "0x0", "address": A1, "topics": []any{T1}}, "3/0"},
		{"address + topics, none", o{"fromBlock": "0x0", "address": A2, "topics": []any{T9}}, ""},
		{"single block", o{"fromBlock": "0x2", "toBlock": "0x2"}, "2/0 2/1"},
		{"range clipped at head", o{"fromBlock": "0x3", "toBlock": "0xffff"}, "3/0 3/1 3/2"},
		{"toBlock = max uint64", o{"fromBlock": "0x3", "toBlock": "0xffffffffffffffff"}, "3/0 3/1 3/2"},
		{"from > to", o{"fromBlock": "0x3", "toBlock": "0x2"}, ""},
		{"from beyond head", o{"fromBlock": "0x9", "toBlock": "0xa"}, ""},
		{"empty blocks only", o{"fromBlock": "0x4", "toBlock": "0x5"}, ""},
	}
	for _, tc := range cases {
		st, v := post(t, nt, js(o{"jsonrpc": "2.0", "id": 7, "method": "eth_getLogs", "params": []any{tc.f}}))
		m, _ := v.(map[string]any)
		res, ok := m["result"].([]any)
		if st != 200 || !ok || m["id"] != float64(7) {
			t.Errorf("%s: status %d response %v", tc.name, st, v)
			continue
		}
		var got []string
		for _, l := range res {
			l := l.(map[string]any)
			got = append(got, strings.TrimPrefix(l["blockNumber"].(string), "0x")+"/"+strings.TrimPrefix(l["logIndex"].(string), "0x"))
		}
		if g := strings.Join(got, " "); g != tc.want {
			t.Errorf("%s: got [%s] want [%s]", tc.name, g, tc.want)
		}
	}
	if len(cases) < 20 {
		t.Fatal("table too small")
	}
	for _, badf := range []any{
		o{"address": 5}, o{"topics": "x"}, o{"topics": []any{5}}, o{"address": "zz"}, o{"address": "0x123"},
		o{"fromBlock": 3}, o{"toBlock": "0x"}, o{"toBlock": "0x11111111111111111"}, "notanobject", nil, []any{},
	} {
		st, v := post(t, nt, js(o{"jsonrpc": "2.0", "id": 1, "method": "eth_getLogs", "params": []any{badf}}))
		if st != 400 || v.(map[string]any)["error"] == nil {
			t.Errorf("bad filter %v: status %d %v", badf, st, v)
		}
	}
}

// malformed requests never panic and answer 400; unknown methods answer -32601.
func TestMalformed(t *testing.T) {
	nt, _, _ := world(t)
	for _, body := range []string{
		``, `{`, `nul`, `null`, `7`, `"x"`, `[]`, `[1]`, `[null]`, `{"method":5}`, `{"id":1}`,
		`{"method":"eth_getBlockByNumber","params":{}}`, `{"method":"eth_getBlockByNumber","params":"x"}`,
		`{"method":"eth_getBlockByNumber","params":[]}`, `{"method":"eth_getBlockByNumber","params":["latest"]}`,
		`{"method":"eth_getBlockByNumber","params":["latest","false"]}`, `{"method":"eth_getBlockByNumber","params":[1,false]}`,
		`{"method":"eth_getBlockByNumber","params":["0xzz",false]}`, `{"method":"eth_getBlockByNumber","params":["12",false]}`,
		`{"method":"eth_getBlockReceipts","params":[]}`, `{"method":"eth_getBlockReceipts","params":[null]}`,
		`{"method":"trace_block","params":[{}]}`, `{"method":"trace_block","params":["0x1","0x2"]}`,
		`{"method":"eth_getLogs","params":[]}`, `{"method":"eth_getLogs","params":[[]]}`,
		`[{"method":"eth_getBlockByNumber","params":["latest",false]},{"method":"trace_block"}]`,
	} {
		st, v := post(t, nt, body)
		m, _ := v.(map[string]any)
		if st != 400 || m["error"] == nil {
			t.Errorf("%q: status %d %v", body, st, v)
		}
	}
	st, v := post(t, nt, `[{"jsonrpc":"2.0","id":"a","method":"eth_chainId","params":[]},{"jsonrpc":"2.0","id":"b","method":"eth_getBlockByNumber","params":["0x63",true]}]`)
	a := v.([]any)
	if st != 200 || len(a) != 2 {
		t.Fatalf("status %d %v", st, v)
	}
	e0 := a[0].(map[string]any)
	if e0["id"] != "a" || e0["error"].(map[string]any)["code"] != float64(-32601) {
		t.Errorf("unknown method: %v", e0)
	}
	e1 := a[1].(map[string]any)
	if r, has := e1["result"]; e1["id"] != "b" || !has || r != nil {
		t.Errorf("beyond head: %v", e1)
	}
	// deterministic rendering
	_, x := post(t, nt, `{"id":1,"method":"eth_getBlockByNumber","params":["0x3",true]}`)
	_, y := post(t, nt, `{"id":1,"method":"eth_getBlockByNumber","params":["0x3",true]}`)
	ex := nt.Exchanges()
	if !reflect.DeepEqual(x, y) || !bytes.Equal(ex[len(ex)-1].Body, ex[len(ex)-2].Body) {
		t.Errorf("rendering is not deterministic")
	}
	// a node without any chain
	nt.Add(simeth.NewNode("empty", nil))
	req, _ := http.NewRequest("POST", "http://empty", strings.NewReader(`[{"id":1,"method":"eth_getBlockByNumber","params":["latest",false]},{"id":2,"method":"eth_getLogs","params":[{}]}]`))
	resp, err := nt.RoundTrip(req)
	if err != nil || resp.StatusCode != 200 {
		t.Errorf("empty node: %v %v", resp, err)
	}
}

// 3. Gate and faults.
func TestGateAndFaults(t *testing.T) {
	nt, node, ch := world(t)
	var seen []*simeth.Exchange
	nt.Gate = func(ex *simeth.Exchange) {
		if ex.Body != nil || ex.Status != 0 {
			t.Errorf("Gate called after the answer: %+v", ex)
		}
		seen = append(seen, ex)
	}
	hdr := glf.New([]string{"block_num"}, nil, nil)
	lgs := glf.New([]string{"log_idx"}, nil, nil)
	c := client()
	if _, err := c.Get(bg, url1, hdr, 1, 3); err != nil {
		t.Fatal(err)
	}
	if _, err := c.Get(bg, url1, lgs, 1, 3); err != nil {
		t.Fatal(err)
	}
	if _, err := c.Get(bg, url1, glf.New([]string{"trace_action_to"}, nil, nil), 2, 2); err != nil {
		t.Fatal(err)
	}
	log := nt.Exchanges()
	if len(seen) != 4 || len(log) != 4 {
		t.Fatalf("gate saw %d exchanges, log has %d, want 4", len(seen), len(log))
	}
	for i, ex := range log {
		if ex != seen[i] || ex.Seq != i || ex.Host != "node1" || ex.Status != 200 || len(ex.Body) == 0 || ex.Version != 0 || ex.Err != nil {
			t.Errorf("exchange %d: %+v", i, ex)
		}
	}
	if !log[0].Batch || len(log[0].Calls) != 3 || log[0].Calls[1].Method != "eth_getBlockByNumber" ||
		!reflect.DeepEqual(log[0].Calls[1].Params, []any{"0x2", false}) {
		t.Errorf("headers exchange: %+v", log[0])
	}
	if !log[1].Batch || len(log[1].Calls) != 2 || log[1].Calls[1].Method != "eth_getLogs" ||
		log[1].Calls[1].Params[0].(map[string]any)["toBlock"] != "0x3" {
		t.Errorf("logs exchange: %+v", log[1])
	}
	if log[2].Batch || log[2].Calls[0].Method != "trace_block" || !strings.HasPrefix(log[2].Calls[0].ID.(string), "traces-2-2-") {
		t.Errorf("traces exchange: %+v", log[2])
	}
	nt.Reset()
	if len(nt.Exchanges()) != 0 {
		t.Errorf("Reset")
	}

	// the chain as it is AFTER Gate returns answers the request
	longer := ch.Extend([]simeth.BlockSpec{{}, {}}, 1)
	nt.Gate = func(ex *simeth.Exchange) { node.SetChain(longer) }
	n, h, err := client().Latest(bg, url1, 0)
	if err != nil || n != 7 || !bytes.Equal(h, longer.Head().Hash) {
		t.Errorf("Latest after growth in Gate: %d %x %v", n, h, err)
	}
	if ex := nt.Exchanges()[0]; ex.Version != 1 || node.Version != 1 || node.Chain() != longer {
		t.Errorf("version: %d %d", ex.Version, node.Version)
	}
	reorged := longer.Reorg(5, []simeth.BlockSpec{{}}, 2)
	nt.Gate = func(ex *simeth.Exchange) { node.SetChain(reorged) }
	if h, err := client().Hash(bg, url1, 6); err != nil || !bytes.Equal(h, reorged.Blocks[6].Hash) || bytes.Equal(h, longer.Blocks[6].Hash) {
		t.Errorf("Hash after reorg in Gate: %x %v", h, err)
	}

	// faults
	fault := func(f simeth.Fault) { nt.Gate = func(ex *simeth.Exchange) { ex.Fault = f } }
	expect := func(name string, err error, sub string) {
		t.Helper()
		if err == nil || !strings.Contains(err.Error(), sub) {
			t.Errorf("%s: got %v want error containing %q", name, err, sub)
		}
	}
	fault(simeth.Fault{Kind: "rpcerror", Code: -32005, Body: "limit exceeded"})
	_, err = client().Get(bg, url1, hdr, 1, 2)
	expect("rpcerror headers", err, "code=-32005 msg=limit exceeded")
	_, err = client().Get(bg, url1, glf.New([]string{"tx_status"}, nil, nil), 2, 1)
	expect("rpcerror receipts", err, "-32005")
	_, _, err = client().Latest(bg, url1, 0)
	expect("rpcerror latest", err, "-32005")
	fault(simeth.Fault{Kind: "rpcerror"})
	_, err = client().Hash(bg, url1, 1)
	expect("rpcerror default code", err, "code=-32000")
	for _, code := range []int{429, 500} {
		fault(simeth.Fault{Kind: "status", Code: code, Body: "slow down"})
		_, err = client().Get(bg, url1, lgs, 1, 2)
		expect("status", err, fmt.Sprintf("rpc http error: %d slow down", code))
	}
	fault(simeth.Fault{Kind: "transport"})
	_, err = client().Get(bg, url1, hdr, 1, 2)
	expect("transport", err, "unable to do http request")
	for _, keep := range []int{0, 1, 40, 1 << 20} {
		fault(simeth.Fault{Kind: "truncate", Keep: keep})
		_, err = client().Get(bg, url1, glf.New([]string{"tx_input"}, nil, nil), 2, 2)
		if keep == 1<<20 {
			if err != nil {
				t.Errorf("truncate beyond the body length must keep the body: %v", err)
			}
			continue
		}
		expect("truncate", err, "unable to json decode")
		ex := nt.Exchanges()
		if last := ex[len(ex)-1]; len(last.Body) != keep || last.Status != 200 {
			t.Errorf("truncate %d: body %d bytes status %d", keep, len(last.Body), last.Status)
		}
	}

	// unknown host, closed network
	nt.Gate = nil
	_, _, err = jrpc2.New("http://nowhere").WithPollDuration(time.Hour).Latest(bg, "http://nowhere", 0)
	expect("unknown host", err, "no such host")
	nt.Close()
	_, _, err = client().Latest(bg, url1, 0)
	expect("closed", err, "network closed")
}

// 4. Mutate rewrites the response tree before it is marshalled.
func TestMutate(t *testing.T) {
	nt, _, _ := world(t)
	hdr := glf.New([]string{"block_num"}, nil, nil)
	count := func() int {
		ex := nt.Exchanges()
		var v []any
		if err := json.Unmarshal(ex[len(ex)-1].Body, &v); err != nil {
			t.Fatal(err)
		}
		return len(v)
	}
	mutate := func(f func(any) any) { nt.Gate = func(ex *simeth.Exchange) { ex.Mutate = f } }

	mutate(func(r any) any { a := r.([]any); return a[:len(a)-1] }) // drop the last element
	_, err := client().Get(bg, url1, hdr, 1, 3)
	if err == nil || !strings.Contains(err.Error(), "invalid data") || count() != 2 {
		t.Errorf("drop: %v (%d elements)", err, count())
	}
	mutate(func(r any) any { a := r.([]any); return append(a, a[0]) }) // duplicate the first element
	_, err = client().Get(bg, url1, hdr, 1, 3)
	if count() != 4 {
		t.Errorf("duplicate: %d elements (client said %v)", count(), err)
	}
	mutate(func(r any) any { r.([]any)[1].(map[string]any)["result"] = nil; return r }) // null a result
	_, err = client().Get(bg, url1, hdr, 1, 3)
	if err == nil || !bytes.Contains(nt.Exchanges()[2].Body, []byte(`"result":null`)) {
		t.Errorf("null result: %v", err)
	}
	mutate(func(r any) any { // break a parent hash
		r.([]any)[2].(map[string]any)["result"].(map[string]any)["parentHash"] = hx(simeth.Word("bogus"))
		return r
	})
	_, err = client().Get(bg, url1, hdr, 1, 3)
	if err == nil || !strings.Contains(err.Error(), "corrupt chain segment") {
		t.Errorf("broken parent: %v", err)
	}
	mutate(func(r any) any { // add an error member to a single response
		r.(map[string]any)["error"] = map[string]any{"code": 3, "message": "boom"}
		return r
	})
	_, _, err = client().Latest(bg, url1, 0)
	if err == nil || !strings.Contains(err.Error(), "code=3 msg=boom") {
		t.Errorf("error member: %v", err)
	}
	mutate(func(r any) any { return map[string]any{"x": make(chan int)} }) // unmarshalable → 500, no panic
	_, _, err = client().Latest(bg, url1, 0)
	if err == nil || !strings.Contains(err.Error(), "rpc http error: 500") {
		t.Errorf("unmarshalable: %v", err)
	}
}

// 5. CheckRender; Extend / Reorg.
func TestCheckRenderAndReorg(t *testing.T) {
	ch := simeth.Build(testSpecs(), 1)
	if len(ch.Blocks) != 6 {
		t.Fatalf("%d blocks", len(ch.Blocks))
	}
	if err := simeth.CheckRender(ch); err != nil {
		t.Fatal(err)
	}
	// CheckRender notices a chain that was modified without Seal, and a model/render mismatch
	bad := ch.Clone()
	bad.Blocks[3].Txs[0].Logs[0].Idx = 9
	if err := simeth.CheckRender(bad); err == nil {
		t.Errorf("CheckRender accepted an unsealed chain")
	}
	same := func(a, b *simeth.Block) bool { return bytes.Equal(a.Hash, b.Hash) }
	if c2 := simeth.Build(testSpecs(), 1); !reflect.DeepEqual(ch, c2) {
		t.Errorf("Build is not deterministic")
	}

	ext := ch.Extend([]simeth.BlockSpec{{Txs: []simeth.TxSpec{{Logs: []*simeth.Log{lg(a1, "n", t1)}}}}, {}}, 1)
	if len(ext.Blocks) != 8 || len(ch.Blocks) != 6 || !ext.Sealed() || simeth.CheckRender(ext) != nil {
		t.Fatalf("Extend: %d blocks", len(ext.Blocks))
	}
	for i := range ch.Blocks {
		if !same(ch.Blocks[i], ext.Blocks[i]) || ch.Blocks[i] == ext.Blocks[i] {
			t.Errorf("Extend: block %d changed or is shared", i)
		}
	}
	if !bytes.Equal(ext.Blocks[6].Parent, ch.Head().Hash) || ext.Blocks[6].Txs[0].Logs[0].Tag != "n" {
		t.Errorf("Extend: block 6 %+v", ext.Blocks[6])
	}

	// same content, other salt: kept prefix identical, every replaced block differs
	for _, salt := range []uint64{2, 8, 15} { // 8 ≡ 1 mod 7: same Time as the original
		re := ext.Reorg(3, testSpecs()[3:], salt)
		if len(re.Blocks) != 6 || !re.Sealed() || simeth.CheckRender(re) != nil {
			t.Fatalf("Reorg: %d blocks", len(re.Blocks))
		}
		for i := range re.Blocks {
			if i <= 3 && !same(re.Blocks[i], ext.Blocks[i]) {
				t.Errorf("Reorg salt %d: kept block %d changed", salt, i)
			}
			if i > 3 && same(re.Blocks[i], ext.Blocks[i]) {
				t.Errorf("Reorg salt %d: replaced block %d kept its hash", salt, i)
			}
			if i > 0 && !bytes.Equal(re.Blocks[i].Parent, re.Blocks[i-1].Hash) {
				t.Errorf("Reorg: parent link %d", i)
			}
		}
	}
	// same salt, same content: TimeDelta alone gives new hashes; without it the branch is identical
	if re := ext.Reorg(3, testSpecs()[3:], 1); !same(re.Blocks[5], ext.Blocks[5]) {
		t.Errorf("Reorg with equal salt and content must reproduce the hashes")
	}
	repl := testSpecs()[3:]
	repl[0].TimeDelta = 1
	re := ext.Reorg(3, repl, 1)
	if same(re.Blocks[4], ext.Blocks[4]) || same(re.Blocks[5], ext.Blocks[5]) || re.Blocks[4].Time != ext.Blocks[4].Time+1 {
		t.Errorf("TimeDelta does not change the hashes")
	}
	// any content change changes the hash of the block and of all descendants, not of ancestors
	mod := ch.Clone()
	mod.Blocks[3].Txs[1].Logs[0].Data[0] ^= 1
	mod.Seal()
	for i := range mod.Blocks {
		if (i < 3) != same(mod.Blocks[i], ch.Blocks[i]) {
			t.Errorf("content change: block %d", i)
		}
	}
	if bytes.Equal(ch.Blocks[3].Txs[1].Logs[0].Data, mod.Blocks[3].Txs[1].Logs[0].Data) {
		t.Errorf("Clone shares log data")
	}
	if tr := ch.Truncate(2); len(tr.Blocks) != 3 || !same(tr.Head(), ch.Blocks[2]) || tr.Blocks[2] == ch.Blocks[2] {
		t.Errorf("Truncate")
	}
	if g := ch.Blocks[0]; len(g.Txs) != 0 || !bytes.Equal(g.Parent, make([]byte, 32)) {
		t.Errorf("genesis: %+v", g)
	}
	// log / tx indexes
	if l := ch.Blocks[3].Txs[1].Logs[0]; l.Idx != 2 || ch.Blocks[3].Txs[1].Idx != 1 || ch.Blocks[3].Txs[1].To != nil || ch.Blocks[3].Txs[0].To == nil {
		t.Errorf("indexes / NoTo: %+v", l)
	}
}

// 6. filler distinctness.
func TestFillDistinct(t *testing.T) {
	var specs []simeth.BlockSpec
	for i := 0; i < 5; i++ {
		specs = append(specs, simeth.BlockSpec{Txs: make([]simeth.TxSpec, 3)})
	}
	ch := simeth.Build(specs, 3).Extend([]simeth.BlockSpec{{Txs: make([]simeth.TxSpec, 3)}}, 4)
	if len(ch.Blocks) != 7 {
		t.Fatal(len(ch.Blocks))
	}
	if err := simeth.CheckDistinct(ch); err != nil {
		t.Fatal(err)
	}
	// independent check with reflection over every filled Tx field
	seen := map[string]string{}
	small := map[string]bool{"Type": true, "Status": true, "V": true, "ChainID": true, "Idx": true, "Logs": true, "Traces": true}
	for _, b := range ch.Blocks {
		for _, tx := range b.Txs {
			v := reflect.ValueOf(*tx)
			for i := 0; i < v.NumField(); i++ {
				name, f := v.Type().Field(i).Name, v.Field(i)
				if name != "Idx" && name != "Logs" && name != "Traces" && f.IsZero() {
					t.Errorf("block %d tx %d: %s is zero", b.Num, tx.Idx, name)
				}
				var key string
				switch x := f.Interface().(type) {
				case []byte:
					if len(x) == 0 || x[0] == 0 || x[len(x)-1] == 0 {
						t.Errorf("block %d tx %d: %s = %x", b.Num, tx.Idx, name, x)
					}
					key = hex.EncodeToString(x)
				case *big.Int:
					if x.Sign() <= 0 || (!small[name] && (x.BitLen() <= 64 || x.BitLen() > 120)) {
						t.Errorf("block %d tx %d: %s = %s out of range", b.Num, tx.Idx, name, x)
					}
					key = x.String()
				case uint64:
					key = fmt.Sprint(x)
				case byte:
					if x == 0 {
						t.Errorf("block %d tx %d: %s = 0", b.Num, tx.Idx, name)
					}
				}
				if small[name] {
					continue
				}
				where := fmt.Sprintf("%d/%d/%s", b.Num, tx.Idx, name)
				if prev, dup := seen[key]; dup {
					t.Errorf("%s and %s share the value %s", prev, where, key)
				}
				seen[key] = where
			}
			if tx.Type != 1 && tx.Type != 2 {
				t.Errorf("Type %d", tx.Type)
			}
			if v := tx.V.Int64(); v != 27 && v != 28 {
				t.Errorf("V %d", v)
			}
		}
	}
	// Type / Status vary over the chain
	types, stats := map[byte]bool{}, map[byte]bool{}
	for _, b := range ch.Blocks {
		for _, tx := range b.Txs {
			types[tx.Type], stats[tx.Status] = true, true
		}
	}
	if len(types) < 2 || len(stats) < 2 {
		t.Errorf("Type/Status do not vary: %v %v", types, stats)
	}
	// other salt → other values for the same place; ChainID is salt-independent
	x, y := &simeth.Tx{}, &simeth.Tx{}
	simeth.FillTx(x, 2, 1, 3)
	simeth.FillTx(y, 2, 1, 4)
	if bytes.Equal(x.Hash, y.Hash) || bytes.Equal(x.From, y.From) || x.Value.Cmp(y.Value) == 0 || x.Nonce == y.Nonce || x.ChainID.Cmp(y.ChainID) != 0 {
		t.Errorf("salt does not perturb the filler")
	}
	// CheckDistinct detects a duplicate and a zero
	d := ch.Clone()
	d.Blocks[2].Txs[1].From = d.Blocks[4].Txs[0].To
	if simeth.CheckDistinct(d) == nil {
		t.Errorf("duplicate not detected")
	}
	d = ch.Clone()
	d.Blocks[2].Txs[1].Gas = 0
	if simeth.CheckDistinct(d) == nil {
		t.Errorf("zero not detected")
	}
	// block filler
	for i, b := range ch.Blocks[:6] {
		if b.Time != 1_600_000_000+uint64(i)*12+3 || len(b.Bloom) != 256 || !bytes.Equal(b.Bloom, make([]byte, 256)) { // no logs: empty bloom
			t.Errorf("block %d filler: time %d", i, b.Time)
		}
	}
	if a := simeth.Addr("x"); len(a) != 20 || !bytes.Equal(a, simeth.Addr("x")) || bytes.Equal(a, simeth.Addr("y")) || len(simeth.Word("x")) != 32 {
		t.Errorf("Addr/Word")
	}
}

// concurrent clients against a blocking Gate (meaningful under -race).
func TestConcurrentRoundTrips(t *testing.T) {
	nt, node, ch := world(t)
	release := make(chan struct{})
	var mu sync.Mutex
	arrived := 0
	nt.Gate = func(ex *simeth.Exchange) {
		mu.Lock()
		arrived++
		mu.Unlock()
		<-release
	}
	var wg sync.WaitGroup
	errs := make(chan error, 8)
	for i := 0; i < 8; i++ {
		wg.Add(1)
		c := client()
		go func(i int) {
			defer wg.Done()
			_, err := c.Get(bg, url1, glf.New([]string{"tx_status", "tx_input"}, nil, nil), 2, 2)
			errs <- err
		}(i)
	}
	for {
		mu.Lock()
		n := arrived
		mu.Unlock()
		if n == 8 {
			break
		}
		time.Sleep(time.Millisecond)
	}
	node.SetChain(ch.Extend([]simeth.BlockSpec{{}}, 1))
	close(release)
	wg.Wait()
	close(errs)
	for err := range errs {
		if err != nil {
			t.Error(err)
		}
	}
	log := nt.Exchanges()
	if len(log) != 16 {
		t.Fatalf("%d exchanges", len(log))
	}
	seqs := map[int]bool{}
	for _, ex := range log {
		seqs[ex.Seq] = true
		if ex.Version != 1 {
			t.Errorf("exchange %d answered by version %d", ex.Seq, ex.Version)
		}
	}
	if len(seqs) != 16 {
		t.Errorf("Seq not unique: %v", seqs)
	}
}
