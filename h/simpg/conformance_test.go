package simpg

import (
	"fmt"
	"math/big"
	"reflect"
	"strings"
	"testing"
	"time"

	"github.com/indexsupply/shovel/shovel"
	"github.com/indexsupply/shovel/wpg"
	"github.com/jackc/pgx/v5"
	"github.com/jackc/pgx/v5/pgtype"
	"github.com/jackc/pgx/v5/pgxpool"
)

// A conformance case: a set-up script (one multi-statement simple Query), then steps. The expectation of a step is
//
//	"!SQLSTATE"            the statement fails with that code
//	"INSERT 0 2" etc.      the command tag, for statements that return no rows
//	"1|x;2|NULL"           the result rows: columns joined by '|', rows by ';' ("" = no rows)
//
// written from the PostgreSQL documentation (not from what the fake happens to do). Every case runs twice: through
// the extended protocol (prepared statement, typed — mostly binary — parameters) and through pgx's simple protocol
// (parameters interpolated client-side as quoted literals of unknown type).
type confStep struct {
	sql   string
	args  []any
	want  string
	multi bool // several statements in one string: simple protocol only (42601 through Parse), run with Exec
}

func qm(sql string, want string) confStep { return confStep{sql: sql, want: want, multi: true} }

type confCase struct {
	name  string
	setup string
	steps []confStep
}

func q(sql string, want string, args ...any) confStep {
	return confStep{sql: sql, args: args, want: want}
}

func renderVal(v any) string {
	switch x := v.(type) {
	case nil:
		return "NULL"
	case pgtype.Numeric:
		b, _ := x.MarshalJSON()
		return strings.Trim(string(b), `"`)
	case []byte:
		return fmt.Sprintf("\\x%x", x)
	case bool:
		if x {
			return "t"
		}
		return "f"
	case time.Time:
		return "ts"
	}
	return fmt.Sprint(v)
}

func runStep(p *pgxpool.Pool, mode pgx.QueryExecMode, st confStep) string {
	args := append([]any{mode}, st.args...)
	if st.multi && mode == pgx.QueryExecModeSimpleProtocol { // Exec reads every result and returns the last tag
		tag, err := p.Exec(bg, st.sql, args...)
		if err != nil {
			return errCode(err)
		}
		return tag.String()
	}
	rows, err := p.Query(bg, st.sql, args...)
	if err != nil {
		return errCode(err)
	}
	var out []string
	for rows.Next() {
		vals, err := rows.Values()
		if err != nil {
			rows.Close()
			return "scan error: " + err.Error()
		}
		var cols []string
		for _, v := range vals {
			cols = append(cols, renderVal(v))
		}
		out = append(out, strings.Join(cols, "|"))
	}
	if err := rows.Err(); err != nil {
		return errCode(err)
	}
	if len(rows.FieldDescriptions()) == 0 {
		return rows.CommandTag().String()
	}
	return strings.Join(out, ";")
}

func errCode(err error) string {
	var pe interface{ SQLState() string }
	if asErr(err, &pe) {
		return "!" + pe.SQLState()
	}
	return "client error: " + err.Error()
}

func asErr(err error, target *interface{ SQLState() string }) bool {
	for e := err; e != nil; {
		if s, ok := e.(interface{ SQLState() string }); ok {
			*target = s
			return true
		}
		u, ok := e.(interface{ Unwrap() error })
		if !ok {
			return false
		}
		e = u.Unwrap()
	}
	return false
}

const (
	tblT   = "create table t (a int, b text, c numeric, d bytea, e bool);"
	nulls3 = tblT + "insert into t (a, b) values (1, 'x'), (2, null), (3, 'y');"
	dist6  = tblT + "insert into t (a, b) values (1, 'p'), (2, 'p'), (3, 'q'), (4, 'q'), (5, null), (6, null);"
	abc4   = tblT + "insert into t (a, b) values (1, 'a'), (2, 'b'), (3, 'c'), (4, null);"
	max256 = "115792089237316195423570985008687907853269984665640564039457584007913129639935"
)

func bigNum(s string) pgtype.Numeric {
	v, _ := new(big.Int).SetString(s, 10)
	return pgtype.Numeric{Int: v, Valid: true}
}

func sp(s string) *string { return &s }

var confCases = []confCase{
	// ---- NULL comparisons (doc: 9.2 Comparison Functions and Operators, 9.24 Row and Array Comparisons) ----
	{"null: = null is never true", nulls3, []confStep{q("select a from t where b = null", "")}},
	{"null: <> skips nulls", nulls3, []confStep{q("select a from t where b <> 'x' order by a", "3"), q("select a from t where b != 'x' order by a", "3")}},
	{"null: not (=) skips nulls", nulls3, []confStep{q("select a from t where not (b = 'x') order by a", "3")}},
	{"null: is null / is not null", nulls3, []confStep{q("select a from t where b is null", "2"), q("select a from t where b is not null order by a", "1;3"),
		q("select a, b is null from t order by a", "1|f;2|t;3|f")}},
	{"null: = $1 with NULL argument", nulls3, []confStep{q("select a from t where b = $1", "", nil), q("select a from t where b = $1", "3", "y")}},
	{"null: not in list containing null", nulls3, []confStep{q("select a from t where a not in (1, null) order by a", ""),
		q("select a from t where a not in (1, 5) order by a", "2;3")}},
	{"null: in list containing null", nulls3, []confStep{q("select a from t where a in (1, null) order by a", "1"),
		q("select a from t where b in ('x', 'y') order by a", "1;3"), q("select a from t where b not in ('x') order by a", "3")}},
	{"null: not in subquery yielding a null", nulls3 + "create table t2 (a int); insert into t2 (a) values (1), (null);",
		[]confStep{q("select a from t where a not in (select a from t2) order by a", ""), q("select a from t where a in (select a from t2) order by a", "1")}},
	{"null: not in subquery without nulls", nulls3 + "create table t2 (a int); insert into t2 (a) values (1);",
		[]confStep{q("select a from t where a not in (select a from t2) order by a", "2;3")}},
	{"null: not in empty subquery is true", nulls3 + "create table t2 (a int);",
		[]confStep{q("select a from t where a not in (select a from t2) order by a", "1;2;3"), q("select a from t where a in (select a from t2)", "")}},
	{"null: row-value not in", nulls3 + "create table t2 (a int, b text); insert into t2 (a, b) values (1, null), (3, 'y');",
		[]confStep{q("select a from t where (a, b) not in (select a, b from t2) order by a", "2"),
			q("select a from t where (a, b) in (select a, b from t2) order by a", "3")}},
	{"null: three-valued and/or/not", nulls3, []confStep{q("select a from t where a = 1 or b = null", "1"), q("select a from t where a = 2 and b = null", ""),
		q("select a from t where not (b = null)", ""), q("select a from t where not (a = 1 and b = null) order by a", "2;3")}},
	{"null: ordering", nulls3, []confStep{q("select a from t order by b", "1;3;2"), q("select a from t order by b desc", "2;3;1"),
		q("select a from t order by b nulls first", "2;1;3"), q("select a from t order by b desc nulls last", "3;1;2")}},
	{"null: delete with <> keeps null rows", nulls3, []confStep{q("delete from t where b <> 'x'", "DELETE 1"), q("select a from t order by a", "1;2")}},

	// ---- DISTINCT ON / DISTINCT (doc: SELECT, DISTINCT Clause) ----
	{"distinct on: first row per key by order by desc", dist6, []confStep{q("select distinct on (b) b, a from t order by b, a desc", "p|2;q|4;NULL|6")}},
	{"distinct on: asc", dist6, []confStep{q("select distinct on (b) b, a from t order by b, a asc", "p|1;q|3;NULL|5"),
		q("select distinct on (b) b, a from t order by b, a", "p|1;q|3;NULL|5")}},
	{"distinct on: with where", dist6, []confStep{q("select distinct on (b) b, a from t where a <> 4 order by b, a desc", "p|2;q|3;NULL|6")}},
	{"distinct on: must match leftmost order by", dist6, []confStep{q("select distinct on (b) b, a from t order by a", "!42P10")}},
	{"distinct on: key descending", dist6, []confStep{q("select distinct on (b) b, a from t order by b desc, a", "NULL|5;q|3;p|1")}},
	{"distinct on: in a CTE, outer order and limit", dist6, []confStep{
		q("with l as (select distinct on (b) b, a from t where b is not null order by b, a desc) select a from l order by a asc limit 1", "2"),
		q("with l as (select distinct on (b) b, a from t where b is not null order by b, a desc) select a from l order by a desc limit 1", "4")}},
	{"distinct: plain", dist6, []confStep{q("select distinct b from t order by b", "p;q;NULL")}},

	// ---- row_number() (doc: 3.5 / 9.22 Window Functions) ----
	{"row_number: partition by, order by desc", dist6, []confStep{
		q("select a, row_number() over (partition by b order by a desc) as rn from t order by a", "1|2;2|1;3|2;4|1;5|2;6|1")}},
	{"row_number: filtered in outer query", dist6, []confStep{
		q("select a from (select a, row_number() over (partition by b order by a desc) as rn from t) as s where rn <= $1 order by a", "2;4;6", 1),
		q("select a from (select a, row_number() over (partition by b order by a) as rn from t) as s where rn <= $1 order by a", "1;3;5", 1),
		q("select a from (select a, row_number() over (partition by b order by a desc) as rn from t) as s where rn <= $1 order by a", "1;2;3;4;5;6", 2)}},
	{"row_number: no partition", dist6, []confStep{q("select a, row_number() over (order by a desc) from t order by a", "1|6;2|5;3|4;4|3;5|2;6|1")}},
	{"row_number: not allowed in where", dist6, []confStep{q("select a from t where row_number() over (order by a) = 1", "!42P20")}},
	{"row_number: prune-shaped delete, NULL partition keys survive NOT IN", dist6, []confStep{
		q("delete from t where (b, a) not in (select b, a from (select b, a, row_number() over (partition by b order by a desc) as rn from t) as s where rn <= $1)", "DELETE 3", 1),
		q("select a from t order by a", "2;4;6")}},

	// ---- = ANY (doc: 9.24.3) ----
	{"any: text[] hit, miss, empty", abc4, []confStep{q("select a from t where b = ANY($1) order by a", "1;3", []string{"a", "c"}),
		q("select a from t where b = ANY($1) order by a", "", []string{"z"}), q("select a from t where b = ANY($1) order by a", "", []string{})}},
	{"any: array with a NULL element", abc4, []confStep{q("select a from t where b = ANY($1) order by a", "1", []*string{sp("a"), nil})}},
	{"any: array literal", abc4, []confStep{q("select a from t where b = ANY('{a,b}') order by a", "1;2"), q("select a from t where b = any ('{}') order by a", "")}},
	{"any: <> ALL", abc4, []confStep{q("select a from t where b <> ALL($1) order by a", "3", []string{"a", "b"}),
		q("select a from t where b <> ALL($1) order by a", "1;2;3;4", []string{})}}, // zero comparisons: true even for the NULL row
	{"any: int[]", abc4, []confStep{q("select a from t where a = ANY($1) order by a", "2;4", []int32{2, 4, 9})}},
	{"any: NULL array", abc4, []confStep{q("select a from t where b = ANY($1)", "", nil)}},

	// ---- LIMIT / OFFSET ----
	{"limit: basic", abc4, []confStep{q("select a from t order by a limit 2", "1;2"), q("select a from t order by a limit 0", ""),
		q("select a from t order by a limit $1", "1;2;3;4", 100), q("select a from t order by a desc limit $1", "4", 1)}},
	{"limit: NULL means no limit", abc4, []confStep{q("select a from t order by a limit $1", "1;2;3;4", nil), q("select a from t order by a limit all", "1;2;3;4")}},
	{"limit: offset", abc4, []confStep{q("select a from t order by a limit 2 offset 1", "2;3"), q("select a from t order by a offset 3", "4"),
		q("select a from t order by a offset 10", "")}},
	{"limit: negative", abc4, []confStep{q("select a from t limit -1", "!2201W")}},

	// ---- unique indexes (doc: 11.6 Unique Indexes) ----
	{"unique: NULLs never conflict", tblT + "create unique index u on t (a);", []confStep{q("insert into t (a) values (null), (null)", "INSERT 0 2"),
		q("insert into t (a) values (null)", "INSERT 0 1"), q("select a from t", "NULL;NULL;NULL")}},
	{"unique: duplicate", tblT + "create unique index u on t (a); insert into t (a) values (1);", []confStep{q("insert into t (a) values (1)", "!23505"),
		q("insert into t (a) values ($1)", "!23505", 1), q("insert into t (a) values (2)", "INSERT 0 1"), q("select a from t order by a", "1;2")}},
	{"unique: several columns", tblT + "create unique index u on t (a, b); insert into t (a, b) values (1, 'x'), (1, null);", []confStep{
		q("insert into t (a, b) values (1, 'y')", "INSERT 0 1"), q("insert into t (a, b) values (2, 'x')", "INSERT 0 1"),
		q("insert into t (a, b) values (1, 'x')", "!23505"), q("insert into t (a, b) values (1, null)", "INSERT 0 1"),
		q("select a, b from t order by a, b", "1|x;1|y;1|NULL;1|NULL;2|x")}},
	{"unique: duplicate inside one statement", tblT + "create unique index u on t (a);", []confStep{q("insert into t (a) values (7), (8), (7)", "!23505"),
		q("select a from t", "")}},
	{"unique: create over duplicates fails", tblT + "insert into t (a) values (1), (1);", []confStep{q("create unique index u on t (a)", "!23505"),
		q("insert into t (a) values (1)", "INSERT 0 1")}},
	{"unique: drop index lifts it", tblT + "create unique index u on t (a); insert into t (a) values (1); drop index u;", []confStep{
		q("insert into t (a) values (1)", "INSERT 0 1"), q("drop index u", "!42704"), q("drop index if exists u", "DROP INDEX")}},
	{"unique: if not exists with a different definition is a no-op", tblT + "create unique index u on t (a); create unique index if not exists u on t (b);", []confStep{
		q("insert into t (a, b) values (1, 'x'), (2, 'x')", "INSERT 0 2"), q("insert into t (a, b) values (1, 'q')", "!23505")}},
	{"unique: same index name twice", tblT + "create unique index u on t (a);", []confStep{q("create unique index u on t (b)", "!42P07"),
		q("create index u on t (b)", "!42P07"), q("create index if not exists u on t (b)", "CREATE INDEX")}},
	{"unique: desc index column", tblT + "create unique index u on t using btree (b, a desc); insert into t (a, b) values (1, 'x');", []confStep{
		q("insert into t (a, b) values (1, 'x')", "!23505"), q("insert into t (a, b) values (2, 'x')", "INSERT 0 1")}},

	// ---- integer ranges (doc: 8.1.1 Integer Types) ----
	{"int2 range", "create table n (i2 int2, si smallint);", []confStep{q("insert into n (i2) values ($1)", "INSERT 0 1", "32767"),
		q("insert into n (i2) values ($1)", "!22003", "32768"), q("insert into n (si) values ($1)", "INSERT 0 1", "-32768"),
		q("insert into n (si) values ($1)", "!22003", "-32769"), q("insert into n (i2) values (40000)", "!22003"),
		q("insert into n (i2) values (-40000)", "!22003"), q("select i2, si from n order by i2", "32767|NULL;NULL|-32768")}},
	{"int4 range", "create table n (i4 int4, i int, ig integer);", []confStep{q("insert into n (i4) values ($1)", "INSERT 0 1", "2147483647"),
		q("insert into n (i4) values ($1)", "!22003", "2147483648"), q("insert into n (i) values ($1)", "!22003", "-2147483649"),
		q("insert into n (ig) values (2147483648)", "!22003"), q("insert into n (i) values (-2147483648)", "INSERT 0 1"),
		q("select i4, i from n order by i4", "2147483647|NULL;NULL|-2147483648")}},
	{"int8 range", "create table n (i8 int8, bi bigint);", []confStep{q("insert into n (i8) values ($1)", "INSERT 0 1", "9223372036854775807"),
		q("insert into n (i8) values ($1)", "!22003", "9223372036854775808"), q("insert into n (bi) values (9223372036854775808)", "!22003"),
		q("insert into n (bi) values ($1)", "INSERT 0 1", int64(-9223372036854775808)), q("select i8, bi from n order by i8", "9223372036854775807|NULL;NULL|-9223372036854775808")}},
	{"int: malformed input", "create table n (i4 int4);", []confStep{q("insert into n (i4) values ($1)", "!22P02", "abc"),
		q("insert into n (i4) values ($1)", "!22P02", "1.5x"), q("insert into n (i4) values ('')", "!22P02"), q("insert into n (i4) values (' 12 ')", "INSERT 0 1")}},

	// ---- numeric exactness (doc: 8.1.2 Arbitrary Precision Numbers) ----
	{"numeric: 2^256-1 as text parameter", tblT, []confStep{q("insert into t (a, c) values (1, $1)", "INSERT 0 1", max256),
		q("select c::text, c from t", max256+"|"+max256), q("select a from t where c = $1", "1", max256),
		q("select a from t where c > $1", "1", "115792089237316195423570985008687907853269984665640564039457584007913129639934"),
		q("select a from t where c > $1", "", max256)}},
	{"numeric: 2^256-1 as binary parameter", tblT, []confStep{q("insert into t (a, c) values (1, $1)", "INSERT 0 1", bigNum(max256)),
		q("select c::text, c from t", max256+"|"+max256), q("select a from t where c = $1", "1", bigNum(max256)),
		q("select a from t where c < $1", "", bigNum(max256)), q("select a from t where c >= $1", "1", bigNum(max256))}},
	{"numeric: zero and negatives, both formats", tblT, []confStep{q("insert into t (a, c) values (1, $1)", "INSERT 0 1", "0"),
		q("insert into t (a, c) values (2, $1)", "INSERT 0 1", bigNum("0")), q("insert into t (a, c) values (3, $1)", "INSERT 0 1", "-1"),
		q("insert into t (a, c) values (4, $1)", "INSERT 0 1", bigNum("-"+max256)), q("insert into t (a, c) values (5, $1)", "INSERT 0 1", "-"+max256),
		q("insert into t (a, c) values (6, $1)", "INSERT 0 1", uint64(1<<63)),
		q("select a, c from t order by c, a", "4|-"+max256+";5|-"+max256+";3|-1;1|0;2|0;6|9223372036854775808"),
		q("select a from t where c = 0 order by a", "1;2"), q("select a from t where c < 0 order by a", "3;4;5"), q("select a from t where c = $1", "3", bigNum("-1"))}},
	{"numeric: literal in SQL text", tblT, []confStep{q("insert into t (a, c) values (1, "+max256+"), (2, -"+max256+"), (3, 0)", "INSERT 0 3"),
		q("select a, c from t order by c", "2|-"+max256+";3|0;1|"+max256)}},
	{"numeric: orders numerically, not lexically", tblT + "insert into t (c) values (9), (10), (100), (-5), (null);", []confStep{
		q("select c from t order by c", "-5;9;10;100;NULL"), q("select c from t order by c desc limit 2", "NULL;100")}},
	{"numeric: input syntax", tblT, []confStep{q("insert into t (c) values ($1)", "INSERT 0 1", " 42 "), q("insert into t (c) values ($1)", "INSERT 0 1", "+7"),
		q("insert into t (c) values ($1)", "INSERT 0 1", "1e3"), q("insert into t (c) values ($1)", "!22P02", "abc"), q("insert into t (c) values ($1)", "!22P02", ""),
		q("select c from t order by c", "7;42;1000")}},
	{"numeric: compared with integer column", tblT + "insert into t (a, c) values (1, 1), (2, 3), (3, null);", []confStep{q("select a from t where c = a", "1"),
		q("select a from t where c > a", "2"), q("select a from t where a >= $1 order by a", "2;3", 2)}},

	// ---- bytea ----
	{"bytea: equality, empty vs NULL", tblT + `insert into t (a, d) values (1, '\x0102'), (2, '\x'), (3, null);`, []confStep{
		q("select a from t where d = $1", "1", []byte{1, 2}), q("select a from t where d = $1", "", []byte{1}), q("select a from t where d = $1", "", []byte{1, 2, 3}),
		q("select a from t where d = $1", "2", []byte{}), q("select a from t where d <> $1 order by a", "2", []byte{1, 2}),
		q(`select a from t where d = '\x0102'`, "1"), q("select a, d from t order by d", `2|\x;1|\x0102;3|NULL`)}},
	{"bytea: select true where c = $1", tblT + `insert into t (a, d) values (1, '\x713d');`, []confStep{q("select true from t where d = $1", "t", []byte{0x71, 0x3d}),
		q("select true from t where d = $1", "", []byte{0x71}), q("select true from t where d = $1", "", nil)}},
	{"bytea: 32 bytes with high bits and zeros", tblT, []confStep{
		q("insert into t (a, d) values (1, $1)", "INSERT 0 1", []byte("\x00\xff\x80\x7f'\\\"\x00abcdefghijklmnopqrstuvwx")),
		q("select d from t", `\x00ff807f275c22006162636465666768696a6b6c6d6e6f707172737475767778`),
		q("select a from t where d = $1", "1", []byte("\x00\xff\x80\x7f'\\\"\x00abcdefghijklmnopqrstuvwx"))}},
	{"bytea: malformed hex literal", tblT, []confStep{q(`insert into t (d) values ('\xzz')`, "!22P02")}},

	// ---- text ----
	{"text: comparison and ordering", tblT + "insert into t (a, b) values (1, 'b'), (2, 'a'), (3, 'b'), (4, 'a'), (5, ''), (6, 'it''s');", []confStep{
		q("select a from t order by b asc, a desc", "5;4;2;3;1;6"), q("select a from t where b > 'a' order by a", "1;3;6"),
		q("select a from t where b >= $1 and b < $2 order by a", "2;4", "a", "b"), q("select a from t where b = ''", "5"),
		q("select b from t where b = $1", "it's", "it's"), q("select a as z from t order by z desc limit 2", "6;5"), q("select a, b from t order by 2 desc, 1 limit 1", "6|it's")}},
	{"text: operator type mismatch", nulls3, []confStep{q("select a from t where b = 1", "!42883"), q("select a from t where a = 'abc'", "!22P02"),
		q("select a from t where a = '1'", "1")}},

	// ---- boolean ----
	{"bool: conditions", tblT + "insert into t (a, e) values (1, true), (2, false), (3, null);", []confStep{q("select a from t where e", "1"),
		q("select a from t where not e", "2"), q("select a from t where e = false", "2"), q("select a from t where e is null", "3"),
		q("select a from t where e = $1", "1", true), q("select a from t where e <> $1", "2", true), q("select a, e from t order by e", "2|f;1|t;3|NULL"),
		q("select a from t where e = 'yes'", "1"), q("select a from t where a", "!42804")}},

	// ---- INSERT defaults (doc: INSERT, 5.2 Default Values) ----
	{"insert: omitted columns get NULL or the default", "create table df (a int, ok bool default false, ts timestamptz default now(), n numeric default 7, s text default 'dflt', nn int not null default 3);",
		[]confStep{q("insert into df (a) values (1)", "INSERT 0 1"), q("select a, ok, n, s, nn, ts is not null from df", "1|f|7|dflt|3|t"),
			q("insert into df (a, ok, s) values (2, null, null)", "INSERT 0 1"), q("select ok, s, nn from df where a = 2", "NULL|NULL|3"),
			q("insert into df (a, s) values (3, default)", "INSERT 0 1"), q("select s from df where a = 3", "dflt"),
			q("insert into df (a, nn) values (4, null)", "!23502"), q("insert into df (a, nn) values ($1, $2)", "!23502", 4, nil),
			q("select a from df order by a", "1;2;3")}},
	{"insert: without column list", tblT, []confStep{q("insert into t values (1, 'x')", "INSERT 0 1"), q("select a, b, c, d, e from t", "1|x|NULL|NULL|NULL"),
		q("insert into t values (1, 'x', 2, null, true, 6)", "!42601"), q("insert into t (a, b) values (1)", "!42601"), q("insert into t (a) values (1, 2)", "!42601")}},
	{"insert: several rows, parameters and literals mixed", tblT, []confStep{q("insert into t (a, b, c) values ($1, 'lit', $2), (2, $3, 5)", "INSERT 0 2", 1, uint64(9), "p"),
		q("select a, b, c from t order by a", "1|lit|9;2|p|5")}},
	{"insert: unknown table / column", tblT, []confStep{q("insert into nope (a) values (1)", "!42P01"), q("insert into t (zz) values (1)", "!42703"),
		q("insert into t (a, a) values (1, 2)", "!42701")}},

	// ---- DDL idempotence ----
	{"ddl: create table if not exists twice keeps the first definition", "create table if not exists z (a int); create table if not exists z (b text);", []confStep{
		q("select column_name from information_schema.columns where table_schema = 'public' and table_name = $1", "a", "z"),
		q("create table z (a int)", "!42P07"), q("create table if not exists z (a int)", "CREATE TABLE")}},
	{"ddl: add column if not exists twice", tblT + "insert into t (a) values (1); alter table t add column if not exists f int; alter table t add column if not exists f text;", []confStep{
		q("select column_name, data_type from information_schema.columns where table_schema = 'public' and table_name = $1", "a|integer;b|text;c|numeric;d|bytea;e|boolean;f|integer", "t"),
		q("alter table t add column f int", "!42701"), q("select a, f from t", "1|NULL"), q("insert into t (a, f) values (2, $1)", "INSERT 0 1", 5),
		q("select a from t where f = 5", "2")}},
	{"ddl: add column with a default fills existing rows", tblT + "insert into t (a) values (1); alter table t add column f int default 5;", []confStep{
		q("select a, f from t", "1|5"), q("insert into t (a) values (2)", "INSERT 0 1"), q("select a, f from t order by a", "1|5;2|5")}},
	{"ddl: drop column if exists", tblT + "insert into t (a, b, c) values (1, 'x', 3); alter table t drop column if exists b; alter table t drop column if exists b;", []confStep{
		q("select column_name from information_schema.columns where table_schema = 'public' and table_name = $1", "a;c;d;e", "t"), q("select a, c from t", "1|3"),
		q("select b from t", "!42703"), q("alter table t drop column b", "!42703"), q("insert into t (a, b) values (1, 'x')", "!42703"),
		q("alter table nope drop column if exists b", "!42P01"), q("alter table if exists nope drop column if exists b", "ALTER TABLE")}},
	{"ddl: dropping a column drops its indexes", tblT + "create unique index u on t (a, b); insert into t (a, b) values (1, 'x'); alter table t drop column b;", []confStep{
		q("insert into t (a) values (1)", "INSERT 0 1")}},
	{"ddl: schema-qualified and unqualified names", "create table public.q1 (a int); insert into q1 (a) values (1); insert into public.q1 (a) values (2);", []confStep{
		q("select a from q1 order by a", "1;2"), q(`select a from "public"."q1" order by a`, "1;2"), q("select q1.a from public.q1 order by q1.a desc", "2;1"),
		q("delete from public.q1 where a = 1", "DELETE 1"), q("select a from q1", "2")}},
	{"ddl: schemas are separate namespaces", "create schema if not exists shovel; create schema if not exists shovel; create table shovel.x (a int); insert into shovel.x (a) values (1);", []confStep{
		q("select a from x", "!42P01"), q("select a from shovel.x", "1"), q("create table x (a text)", "CREATE TABLE"), q("insert into x (a) values ('pub')", "INSERT 0 1"),
		q("select a from shovel.x", "1"), q("select a from public.x", "pub"), q("create table nos.y (a int)", "!3F000"), q("create schema shovel", "!42P06")}},
	{"ddl: identifier case folding", `create table CamelT (A int, "B" int); insert into camelt (a, "B") values (1, 2);`, []confStep{
		q(`select A, "B" from CAMELT`, "1|2"), q("select b from camelt", "!42703"), q(`select "A" from camelt`, "!42703"), q(`select a from "CamelT"`, "!42P01")}},
	{"ddl: is transactional inside one query string", "", []confStep{qm("create table k (a int); insert into k (a) values ('x')", "!22P02"), q("select a from k", "!42P01")}},

	// ---- quoted identifiers / reserved words as column names ----
	{"reserved words as quoted column names", `create table rw ("from" bytea, "to" bytea, value numeric, "order" int, "user" text, "Mixed Case" text);
		create unique index u_rw on rw ("from", "to"); create index shovel_to on rw ("to");`, []confStep{
		q(`insert into rw ("from", "to", value, "order", "user", "Mixed Case") values ($1, $2, $3, 1, 'u', 'm')`, "INSERT 0 1", []byte{1}, []byte{2}, uint64(5)),
		q(`insert into rw ("from", "to", value, "order") values ($1, $2, $3, 2)`, "INSERT 0 1", []byte{1}, []byte{3}, uint64(6)),
		q(`insert into rw ("from", "to") values ($1, $2)`, "!23505", []byte{1}, []byte{2}),
		q(`select "from", "to", value, "order", "user", "Mixed Case" from rw where "to" = $1`, `\x01|\x02|5|1|u|m`, []byte{2}),
		q(`select rw."order", rw.value from rw order by "order" desc`, "2|6;1|5"), q(`select "value" from "rw" where "from" = $1 and "order" >= $2 order by "value"`, "5;6", []byte{1}, 1),
		q(`delete from rw where "from" = $1 and "order" >= $2`, "DELETE 1", []byte{1}, 2),
		q("select column_name, data_type from information_schema.columns where table_schema = 'public' and table_name = $1",
			"from|bytea;to|bytea;value|numeric;order|integer;user|text;Mixed Case|text", "rw")}},

	// ---- sub-selects, CTEs, projections ----
	{"select: without FROM", "", []confStep{q("select 1", "1"), q("select true", "t"), q("select null", "NULL"), q("select 1, 'x', $1", "1|x|y", "y")}},
	{"select: CTE and FROM-subquery with aliases", abc4, []confStep{
		q("with w as (select a, b from t where a > 1) select w.a from w where w.b is not null order by w.a desc", "3;2"),
		q("select s.a from (select a from t where a < 3) as s order by s.a desc", "2;1"), q("select s.a from (select a from t where a < 3) s order by 1", "1;2"),
		q("select x.a from t as x where x.b = 'b'", "2"), q("select * from t where a = 1", "1|a|NULL|NULL|NULL"), q("select t.* from t where a = 4", "4|NULL|NULL|NULL|NULL"),
		q("select a from (select a from t)", "!42601")}},
	{"select: unknown names", abc4, []confStep{q("select zz from t", "!42703"), q("select a from nope", "!42P01"), q("select nope.a from t", "!42P01"),
		q("delete from nope", "!42P01"), q("delete from t where zz = 1", "!42703"), q("select nosuchfn(a) from t", "!42883")}},
	{"select: syntax errors", abc4, []confStep{q("selec 1", "!42601"), q("select a from t where", "!42601"), q("select a from t order", "!42601"),
		q("select from from t", "!42601")}},

	// ---- multi-statement simple query = one implicit transaction ----
	{"simple query: error rolls back earlier statements of the same string", tblT, []confStep{
		qm("insert into t (a) values (1); insert into t (a) values ('x')", "!22P02"), q("select a from t", ""),
		qm("insert into t (a) values (1); insert into t (a) values (2)", "INSERT 0 1"), q("select a from t order by a", "1;2"),
		qm("begin; insert into t (a) values (3); commit", "COMMIT"), q("select a from t order by a", "1;2;3")}},

	// ---- information_schema.columns: data_type spellings ----
	{"information_schema: data_type spellings", `create table ty (c1 int, c2 int2, c3 int4, c4 int8, c5 integer, c6 smallint, c7 bigint, c8 bool, c9 boolean, c10 numeric,
		c11 bytea, c12 text, c13 timestamptz, c14 interval, c15 jsonb, c16 timestamp, c17 varchar, c18 uuid, c19 double precision, c20 date, c21 json, c22 real);`, []confStep{
		q("select column_name, data_type from information_schema.columns where table_schema = 'public' and table_name = $1",
			"c1|integer;c2|smallint;c3|integer;c4|bigint;c5|integer;c6|smallint;c7|bigint;c8|boolean;c9|boolean;c10|numeric;c11|bytea;c12|text;"+
				"c13|timestamp with time zone;c14|interval;c15|jsonb;c16|timestamp without time zone;c17|character varying;c18|uuid;c19|double precision;c20|date;c21|json;c22|real", "ty"),
		q("select column_name from information_schema.columns where table_schema = 'shovel' and table_name = $1", "", "ty"),
		q("select column_name from information_schema.columns where table_schema = 'public' and table_name = $1", "", "nope")}},
}

func TestConformance(t *testing.T) {
	nsteps := 0
	for _, mode := range []pgx.QueryExecMode{pgx.QueryExecModeCacheStatement, pgx.QueryExecModeSimpleProtocol, pgx.QueryExecModeDescribeExec} {
		for _, c := range confCases {
			multi := false
			for _, st := range c.steps {
				multi = multi || st.multi
			}
			if multi && mode != pgx.QueryExecModeSimpleProtocol {
				all := c.steps
				c = confCase{c.name, c.setup, nil}
				for _, st := range all {
					if st.multi {
						c.steps = append(c.steps, st) // only check the refusal
					}
				}
			}
			t.Run(mode.String()+"/"+c.name, func(t *testing.T) {
				s, p := newPool(t)
				if c.setup != "" {
					mustExec(t, p, c.setup)
				}
				for i, st := range c.steps {
					nsteps++
					want := st.want
					if st.multi && mode != pgx.QueryExecModeSimpleProtocol {
						want = "!42601" // cannot insert multiple commands into a prepared statement
					}
					if got := runStep(p, mode, st); got != want {
						t.Errorf("step %d: %s %v\n got %q\nwant %q", i, st.sql, st.args, got, st.want)
					}
				}
				for _, u := range s.Unsupported() { // only genuine syntax errors may be flagged
					if !strings.Contains(c.name, "syntax errors") && !strings.Contains(u, "select a from (select a from t)") && !strings.Contains(u, "nosuchfn") {
						t.Errorf("unsupported: %s", u)
					}
				}
				if len(s.OpenTxs()) != 0 {
					t.Errorf("open transactions left: %v", s.OpenTxs())
				}
			})
		}
	}
	if len(confCases) < 50 {
		t.Fatalf("only %d conformance cases", len(confCases))
	}
	t.Logf("%d cases, %d steps", len(confCases), nsteps)
}

// Cases that need CopyFrom, shovel's own code, or inspection of the fake's state.
func TestConformanceCopyAndShovel(t *testing.T) {
	t.Run("alter table add column twice then COPY into the new column", func(t *testing.T) {
		s, p := newPool(t)
		mustExec(t, p, "create table t (a int)")
		mustExec(t, p, "insert into t (a) values (1)")
		for i := 0; i < 2; i++ {
			mustExec(t, p, "alter table t add column if not exists extra numeric")
		}
		n, err := p.CopyFrom(bg, pgx.Identifier{"t"}, []string{"a", "extra"}, pgx.CopyFromRows([][]any{{2, uint64(22)}, {3, nil}}))
		if err != nil || n != 2 {
			t.Fatalf("copy: %d %v", n, err)
		}
		n, err = p.CopyFrom(bg, pgx.Identifier{"t"}, []string{"extra"}, pgx.CopyFromRows([][]any{{uint64(44)}}))
		if err != nil || n != 1 {
			t.Fatalf("copy: %d %v", n, err)
		}
		if got := runStep(p, pgx.QueryExecModeCacheStatement, q("select a, extra from t order by extra, a", "")); got != "2|22;NULL|44;1|NULL;3|NULL" {
			t.Fatal(got)
		}
		rows := s.Dump("t")
		if rows[1].Vals["extra"].(*big.Int).Int64() != 22 || rows[0].Vals["extra"] != nil || rows[3].Vals["a"] != nil {
			t.Fatalf("dump: %+v", rows)
		}
		noUnsupported(t, s)
	})

	t.Run("COPY with one unique violation among good rows inserts nothing", func(t *testing.T) {
		s, p, log := newObserved(t)
		mustExec(t, p, "create table t (a int, b text)")
		mustExec(t, p, "create unique index u_t on t (a)")
		mustExec(t, p, "insert into t (a, b) values (3, 'old')")
		log.take()
		rows := [][]any{{1, "new"}, {2, "new"}, {3, "dup"}, {4, "new"}}
		_, err := p.CopyFrom(bg, pgx.Identifier{"t"}, []string{"a", "b"}, pgx.CopyFromRows(rows))
		wantCode(t, err, "23505")
		if got := runStep(p, pgx.QueryExecModeCacheStatement, q("select a, b from t", "")); got != "3|old" {
			t.Fatal(got)
		}
		if ev := log.take(); len(ev) != 0 {
			t.Fatalf("events: %s", evString(ev))
		}
		// duplicates inside the COPY stream itself
		_, err = p.CopyFrom(bg, pgx.Identifier{"t"}, []string{"a", "b"}, pgx.CopyFromRows([][]any{{7, "x"}, {7, "y"}}))
		wantCode(t, err, "23505")
		// inside a transaction the whole transaction is lost
		tx, _ := p.Begin(bg)
		mustExec(t, tx, "insert into t (a, b) values (10, 'tx')")
		_, err = tx.CopyFrom(bg, pgx.Identifier{"t"}, []string{"a", "b"}, pgx.CopyFromRows(rows))
		wantCode(t, err, "23505")
		if err := tx.Commit(bg); err != pgx.ErrTxCommitRollback {
			t.Fatalf("commit: %v", err)
		}
		if got := runStep(p, pgx.QueryExecModeCacheStatement, q("select a, b from t", "")); got != "3|old" {
			t.Fatal(got)
		}
		// without the offending row everything goes in, NULL keys never conflict
		n, err := p.CopyFrom(bg, pgx.Identifier{"t"}, []string{"a", "b"}, pgx.CopyFromRows([][]any{{1, "new"}, {nil, "n1"}, {nil, "n2"}}))
		if err != nil || n != 3 {
			t.Fatalf("copy: %d %v", n, err)
		}
		if len(s.Dump("t")) != 4 {
			t.Fatalf("rows: %+v", s.Dump("t"))
		}
	})

	t.Run("wpg.Table with reserved-word columns: DDL, Migrate twice, COPY, select", func(t *testing.T) {
		s, p := newPool(t)
		tbl := wpg.Table{
			Name: "rw",
			Columns: []wpg.Column{{Name: "from", Type: "bytea"}, {Name: "to", Type: "bytea"}, {Name: "value", Type: "numeric"},
				{Name: "order", Type: "int"}, {Name: "user", Type: "text"}, {Name: "log_idx", Type: "int2"}, {Name: "ok", Type: "bool"}},
			Unique: [][]string{{"from", "to", "log_idx"}},
			Index:  [][]string{{"to"}, {"from", "order"}},
		}
		for i := 0; i < 2; i++ {
			if err := tbl.Migrate(bg, p); err != nil {
				t.Fatal(err)
			}
		}
		if got := colNames(s.Columns("rw")); got != "from:bytea to:bytea value:numeric order:integer user:text log_idx:smallint ok:boolean" {
			t.Fatal(got)
		}
		ix := s.Indexes("rw")
		if len(ix) != 3 || ix[0].Name != "u_rw" || !ix[0].Unique || !reflect.DeepEqual(ix[0].Cols, []string{"from", "to", "log_idx"}) ||
			ix[1].Name != "shovel_to" || ix[1].Unique || ix[2].Name != "shovel_from_order" {
			t.Fatalf("indexes: %+v", ix)
		}
		// a later version of the table gains a column: Migrate adds it
		tbl.Columns = append(tbl.Columns, wpg.Column{Name: "to_2", Type: "numeric"}, wpg.Column{Name: "end", Type: "text"})
		if err := tbl.Migrate(bg, p); err != nil {
			t.Fatal(err)
		}
		cols := []string{"from", "to", "value", "order", "user", "log_idx", "ok", "to_2", "end"}
		n, err := p.CopyFrom(bg, pgx.Identifier{"rw"}, cols, pgx.CopyFromRows([][]any{
			{[]byte{1}, []byte{2}, uint64(5), 1, "u", 0, true, uint64(9), "e"},
			{[]byte{1}, []byte{2}, uint64(6), 2, "v", 1, false, nil, nil},
		}))
		if err != nil || n != 2 {
			t.Fatalf("copy: %d %v", n, err)
		}
		_, err = p.CopyFrom(bg, pgx.Identifier{"rw"}, cols, pgx.CopyFromRows([][]any{{[]byte{1}, []byte{2}, uint64(7), 3, "w", 1, nil, nil, nil}}))
		wantCode(t, err, "23505")
		got := runStep(p, pgx.QueryExecModeCacheStatement, q(`select "from", "to", value, "order", "user", log_idx, ok, to_2, "end" from rw where "to" = $1 order by "order"`, "", []byte{2}))
		if got != `\x01|\x02|5|1|u|0|t|9|e;\x01|\x02|6|2|v|1|f|NULL|NULL` {
			t.Fatal(got)
		}
		noUnsupported(t, s)
	})

	t.Run("create unique index if not exists keeps the old definition", func(t *testing.T) {
		s, p := newPool(t)
		mustExec(t, p, "create table t (a int, b int)")
		mustExec(t, p, "create unique index if not exists u_t on t (a)")
		mustExec(t, p, "create unique index if not exists u_t on t (a, b)")
		mustExec(t, p, "create index if not exists u_t on t (b)")
		if ix := s.Indexes("t"); len(ix) != 1 || !reflect.DeepEqual(ix[0].Cols, []string{"a"}) || !ix[0].Unique {
			t.Fatalf("indexes: %+v", ix)
		}
	})

	t.Run("PruneTask n=1 and n=2 over several partitions", func(t *testing.T) {
		for n, want := range map[int]string{1: "main/a/5 main/b/3 other/a/7 other/c/9", 2: "main/a/4 main/a/5 main/b/2 main/b/3 other/a/7 other/c/9"} {
			s, p, _ := mutationDB(t)
			if err := shovel.PruneTask(bg, p, n); err != nil {
				t.Fatal(err)
			}
			if got := taskState(s); got != want {
				t.Errorf("n=%d: %s", n, got)
			}
		}
	})

	t.Run("explicit transaction inside one query string", func(t *testing.T) {
		s, p := newPool(t)
		mustExec(t, p, "create table t (a int)")
		c := acquire(t, p)
		defer c.Release()
		// the error aborts the block; the rest of the string (including commit) is skipped; the session stays in E
		_, err := c.Exec(bg, "begin; insert into t (a) values (4); insert into t (a) values ('x'); commit")
		wantCode(t, err, "22P02")
		if st := c.Conn().PgConn().TxStatus(); st != 'E' {
			t.Fatalf("status %c", st)
		}
		_, err = c.Exec(bg, "select a from t")
		wantCode(t, err, "25P02")
		mustExec(t, c, "rollback")
		if st := c.Conn().PgConn().TxStatus(); st != 'I' || len(s.Dump("t")) != 0 {
			t.Fatalf("status %c rows %d", st, len(s.Dump("t")))
		}
		// an implicit transaction block that succeeds commits all statements at the end of the string
		mustExec(t, c, "insert into t (a) values (1); insert into t (a) values (2)")
		// begin without commit leaves the transaction open after the string
		mustExec(t, c, "begin; insert into t (a) values (3)")
		if st := c.Conn().PgConn().TxStatus(); st != 'T' || len(s.Dump("t")) != 2 {
			t.Fatalf("status %c rows %d", st, len(s.Dump("t")))
		}
		mustExec(t, c, "commit")
		if len(s.Dump("t")) != 3 {
			t.Fatalf("rows %d", len(s.Dump("t")))
		}
	})

	t.Run("now() is the transaction start time", func(t *testing.T) {
		s, p := newPool(t)
		mustExec(t, p, "create table t (a int, ts timestamptz default now())")
		tx, _ := p.Begin(bg)
		mustExec(t, tx, "insert into t (a) values (1)")
		mustExec(t, tx, "insert into t (a) values (2)")
		tx.Commit(bg)
		mustExec(t, p, "insert into t (a) values (3)")
		r := s.Dump("t")
		if !reflect.DeepEqual(r[0].Vals["ts"], r[1].Vals["ts"]) || reflect.DeepEqual(r[1].Vals["ts"], r[2].Vals["ts"]) {
			t.Fatalf("timestamps: %x %x %x", r[0].Vals["ts"], r[1].Vals["ts"], r[2].Vals["ts"])
		}
		var ts time.Time
		if err := p.QueryRow(bg, "select ts from t where a = 3").Scan(&ts); err != nil || ts.Year() != 2000 {
			t.Fatalf("timestamptz read back: %v %v", ts, err)
		}
	})
}

// A prepared "select *" whose result type changes under it fails like in Postgres; pgx then drops its cached
// statement and the next attempt works.
func TestCachedPlanResultTypeChange(t *testing.T) {
	s, p := newPool(t)
	mustExec(t, p, "create table t (a int)")
	mustExec(t, p, "insert into t (a) values (1)")
	if got := runStep(p, pgx.QueryExecModeCacheStatement, q("select * from t where a = $1", "", 1)); got != "1" {
		t.Fatal(got)
	}
	mustExec(t, p, "alter table t add column b text default 'x'")
	if got := runStep(p, pgx.QueryExecModeCacheStatement, q("select * from t where a = $1", "", 1)); got != "!0A000" {
		t.Fatal(got)
	}
	if got := runStep(p, pgx.QueryExecModeCacheStatement, q("select * from t where a = $1", "", 1)); got != "1|x" {
		t.Fatal(got)
	}
	noUnsupported(t, s)
}
