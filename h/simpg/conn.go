package simpg

import (
	"encoding/binary"
	"errors"
	"io"
	"net"
	"os"
	"sync"
	"time"
)

// conn is the client end of an in-memory connection; the "server end" is executed inside Write.
type conn struct {
	s  *Server
	id int // assigned by the startup message, under s.mu

	mu     sync.Mutex // guards rbuf, closed, eof, deadlines, timer
	cond   *sync.Cond
	rbuf   []byte
	closed bool // closed by the client (Close)
	eof    bool // closed by the server side (Terminate, drop, fault)
	rdl    time.Time
	wdl    time.Time
	timer  *time.Timer

	wmu     sync.Mutex // serialises Write; guards the framing state below
	in      []byte
	started bool
	pending []fmsg
	copy    *copyState // non-nil while in CopyIn mode

	// session state, guarded by s.mu
	dead    bool
	stmts   map[string]*prepared
	portals map[string]*portal
	tx      *txn
	failed  bool
}

type simAddr struct{}

func (simAddr) Network() string { return "tcp" }
func (simAddr) String() string  { return "sim:5432" }

func (c *conn) LocalAddr() net.Addr  { return simAddr{} }
func (c *conn) RemoteAddr() net.Addr { return simAddr{} }

var errBrokenPipe = &net.OpError{Op: "write", Net: "sim", Err: errors.New("simpg: broken pipe")}
var errWriteRefused = &net.OpError{Op: "write", Net: "sim", Err: errors.New("simpg: server is refusing requests")}

// Read blocks until reply bytes exist, the connection is closed, or the read deadline passes.
func (c *conn) Read(p []byte) (int, error) {
	if len(p) == 0 {
		return 0, nil
	}
	c.mu.Lock()
	defer c.mu.Unlock()
	for {
		switch {
		case c.closed:
			return 0, net.ErrClosed
		case !c.rdl.IsZero() && !time.Now().Before(c.rdl):
			return 0, os.ErrDeadlineExceeded
		case len(c.rbuf) > 0:
			n := copy(p, c.rbuf)
			c.rbuf = c.rbuf[n:]
			if len(c.rbuf) == 0 {
				c.rbuf = nil
			}
			return n, nil
		case c.eof:
			return 0, io.EOF
		}
		c.cond.Wait()
	}
}

func (c *conn) deliver(b []byte) {
	c.mu.Lock()
	c.rbuf = append(c.rbuf, b...)
	c.cond.Broadcast()
	c.mu.Unlock()
}

func (c *conn) writable() error {
	c.mu.Lock()
	defer c.mu.Unlock()
	switch {
	case c.closed:
		return net.ErrClosed
	case c.eof:
		return errBrokenPipe
	case !c.wdl.IsZero() && !time.Now().Before(c.wdl):
		return os.ErrDeadlineExceeded
	case c.s.refuse.Load():
		return errWriteRefused
	}
	return nil
}

// Close closes the client end. An open transaction is rolled back ("connloss").
func (c *conn) Close() error {
	c.mu.Lock()
	if c.closed {
		c.mu.Unlock()
		return nil
	}
	c.closed = true
	if c.timer != nil {
		c.timer.Stop()
	}
	c.cond.Broadcast()
	c.mu.Unlock()
	c.serverClose()
	return nil
}

// serverClose ends the session on the server side (idempotent).
func (c *conn) serverClose() {
	s := c.s
	s.mu.Lock()
	if !c.dead {
		s.dropLocked(c, 0)
	}
	evs := s.takeEvents()
	s.mu.Unlock()
	s.fire(evs)
}

func (c *conn) SetDeadline(t time.Time) error {
	c.SetWriteDeadline(t)
	return c.SetReadDeadline(t)
}

func (c *conn) SetWriteDeadline(t time.Time) error {
	c.mu.Lock()
	c.wdl = t
	c.mu.Unlock()
	return nil
}

// SetReadDeadline wakes blocked readers when the deadline is (or becomes) due; pgconn's context watcher
// interrupts a blocked Read by setting a deadline in the past.
func (c *conn) SetReadDeadline(t time.Time) error {
	c.mu.Lock()
	defer c.mu.Unlock()
	c.rdl = t
	if c.timer != nil {
		c.timer.Stop()
		c.timer = nil
	}
	if t.IsZero() || c.closed {
		return nil
	}
	if d := time.Until(t); d <= 0 {
		c.cond.Broadcast()
	} else {
		c.timer = time.AfterFunc(d, func() {
			c.mu.Lock()
			c.cond.Broadcast()
			c.mu.Unlock()
		})
	}
	return nil
}

// fmsg is one framed frontend message.
type fmsg struct {
	typ  byte
	body []byte
	dec  any // decoded form, filled by describeBatch
}

const (
	codeStartup = 196608
	codeCancel  = 80877102
	codeSSL     = 80877103
	codeGSS     = 80877104
)

// Write frames frontend messages and executes every completed batch synchronously on the caller's goroutine.
func (c *conn) Write(p []byte) (int, error) {
	c.wmu.Lock()
	defer c.wmu.Unlock()
	if err := c.writable(); err != nil {
		return 0, err
	}
	c.in = append(c.in, p...)
	for {
		if !c.started {
			if len(c.in) < 8 {
				break
			}
			l := int(binary.BigEndian.Uint32(c.in))
			if l < 8 || l > 1<<20 {
				c.serverClose()
				return len(p), nil
			}
			if len(c.in) < l {
				break
			}
			code := binary.BigEndian.Uint32(c.in[4:])
			c.in = c.in[l:]
			switch code {
			case codeSSL, codeGSS:
				c.deliver([]byte{'N'})
			case codeStartup:
				c.started = true
				c.runBatch("startup", nil)
			default: // CancelRequest (nothing is ever cancellable) or an unknown protocol: just close
				c.serverClose()
				return len(p), nil
			}
			continue
		}
		if len(c.in) < 5 {
			break
		}
		l := int(binary.BigEndian.Uint32(c.in[1:]))
		if l < 4 || l > 1<<30 {
			c.serverClose()
			return len(p), nil
		}
		if len(c.in) < 1+l {
			break
		}
		typ, body := c.in[0], c.in[5:1+l]
		c.in = c.in[1+l:]
		if c.copy != nil {
			switch typ {
			case 'd':
				c.copy.data = append(c.copy.data, body...)
			case 'c', 'f':
				c.runBatch("copydone", []fmsg{{typ: typ, body: append([]byte{}, body...)}})
			case 'H', 'S': // Flush and Sync are ignored during COPY
			default:
				c.runBatch("copydone", []fmsg{{typ: 'f', body: []byte("unexpected message type during COPY from stdin\x00")}})
			}
			continue
		}
		switch typ {
		case 'd', 'c', 'f', 'H': // CopyData/CopyDone/CopyFail outside COPY mode (after a failed COPY) and Flush are ignored
			continue
		}
		c.pending = append(c.pending, fmsg{typ: typ, body: append([]byte{}, body...)})
		switch typ {
		case 'S':
			msgs := c.pending
			c.pending = nil
			c.runBatch("extended", msgs)
		case 'Q':
			msgs := c.pending
			c.pending = nil
			c.runBatch("query", msgs[len(msgs)-1:])
		case 'X':
			c.pending = nil
			c.runBatch("terminate", nil)
		}
	}
	if len(c.in) == 0 {
		c.in = nil
	}
	return len(p), nil
}

// runBatch is the scheduling point: describe the batch, ask the gate, execute, deliver the reply.
func (c *conn) runBatch(kind string, msgs []fmsg) {
	s := c.s
	s.mu.Lock()
	if kind == "startup" {
		s.nextConn++
		c.id = s.nextConn
		s.conns = append(s.conns, c)
		s.stats.Conns++
	}
	if c.dead {
		s.mu.Unlock()
		return
	}
	s.seq++
	s.stats.Batches++
	s.clock += 1000
	b := s.describeBatch(c, kind, msgs)
	s.mu.Unlock()

	fault := FaultNone
	if s.Gate != nil {
		fault = s.Gate(b)
	}
	var out batchOut
	run := func() { out = s.process(c, b, msgs, fault) }
	if s.Exec != nil {
		s.Exec(run)
	} else {
		run()
	}
	c.copy = out.copy
	s.fire(out.events)
	if len(out.reply) > 0 {
		c.deliver(out.reply)
	}
}
