package simpg

import (
	"context"
	"errors"
	"io"
	"net"
	"os"
	"strings"
	"testing"
	"time"

	"github.com/jackc/pgx/v5"
	"github.com/jackc/pgx/v5/pgproto3"
)

// rawConn dials the fake directly and completes the startup handshake.
func rawConn(t *testing.T, s *Server) (net.Conn, *pgproto3.Frontend) {
	t.Helper()
	nc, err := s.Dial(bg, "tcp", "sim:5432")
	if err != nil {
		t.Fatal(err)
	}
	fe := pgproto3.NewFrontend(nc, nc)
	fe.Send(&pgproto3.StartupMessage{ProtocolVersion: pgproto3.ProtocolVersionNumber, Parameters: map[string]string{"user": "u", "database": "db"}})
	if err := fe.Flush(); err != nil {
		t.Fatal(err)
	}
	for {
		m, err := fe.Receive()
		if err != nil {
			t.Fatal(err)
		}
		if _, ok := m.(*pgproto3.ReadyForQuery); ok {
			return nc, fe
		}
	}
}

func TestConnDeadlines(t *testing.T) {
	s := NewServer()
	nc, fe := rawConn(t, s)
	buf := make([]byte, 16)

	// a blocked Read returns when the deadline passes
	nc.SetReadDeadline(time.Now().Add(30 * time.Millisecond))
	start := time.Now()
	if _, err := nc.Read(buf); !errors.Is(err, os.ErrDeadlineExceeded) || time.Since(start) > 2*time.Second {
		t.Fatalf("read with deadline: %v after %v", err, time.Since(start))
	}
	var ne net.Error
	if _, err := nc.Read(buf); !errors.As(err, &ne) || !ne.Timeout() {
		t.Fatalf("deadline error is not a net.Error timeout: %v", err)
	}
	// a deadline set in the past from another goroutine interrupts a blocked Read (pgconn's context watcher)
	nc.SetReadDeadline(time.Time{})
	res := make(chan error, 1)
	go func() { _, err := nc.Read(buf); res <- err }()
	time.Sleep(20 * time.Millisecond)
	nc.SetDeadline(time.Unix(1, 0))
	select {
	case err := <-res:
		if !errors.Is(err, os.ErrDeadlineExceeded) {
			t.Fatalf("interrupted read: %v", err)
		}
	case <-time.After(5 * time.Second):
		t.Fatal("a past deadline does not interrupt a blocked Read")
	}
	if _, err := nc.Write([]byte{'S', 0, 0, 0, 4}); !errors.Is(err, os.ErrDeadlineExceeded) {
		t.Fatalf("write after deadline: %v", err)
	}
	// clearing the deadline makes the connection usable again
	nc.SetDeadline(time.Time{})
	fe.Send(&pgproto3.Query{String: "select 1"})
	if err := fe.Flush(); err != nil {
		t.Fatal(err)
	}
	var got []string
	for {
		m, err := fe.Receive()
		if err != nil {
			t.Fatal(err)
		}
		switch m := m.(type) {
		case *pgproto3.DataRow:
			got = append(got, string(m.Values[0]))
		case *pgproto3.CommandComplete:
			got = append(got, string(m.CommandTag))
		}
		if _, ok := m.(*pgproto3.ReadyForQuery); ok {
			break
		}
	}
	if strings.Join(got, ",") != "1,SELECT 1" {
		t.Fatalf("reply: %v", got)
	}
	// Close wakes a blocked reader; afterwards everything fails
	go func() { _, err := nc.Read(buf); res <- err }()
	time.Sleep(20 * time.Millisecond)
	nc.Close()
	select {
	case err := <-res:
		if !errors.Is(err, net.ErrClosed) {
			t.Fatalf("read on closed conn: %v", err)
		}
	case <-time.After(5 * time.Second):
		t.Fatal("Close does not wake a blocked Read")
	}
	if _, err := nc.Write([]byte{'S', 0, 0, 0, 4}); !errors.Is(err, net.ErrClosed) {
		t.Fatalf("write on closed conn: %v", err)
	}
	if nc.Close() != nil || len(s.Conns()) != 0 {
		t.Fatal("double close / session left")
	}

	// server-side drop: pending reply bytes are still readable, then EOF; writes fail
	nc, _ = rawConn(t, s)
	go func() { _, err := nc.Read(buf); res <- err }()
	time.Sleep(20 * time.Millisecond)
	s.DropAll()
	select {
	case err := <-res:
		if err != io.EOF {
			t.Fatalf("read on dropped conn: %v", err)
		}
	case <-time.After(5 * time.Second):
		t.Fatal("DropAll does not wake a blocked Read")
	}
	if _, err := nc.Write([]byte{'S', 0, 0, 0, 4}); err == nil {
		t.Fatal("write on dropped conn succeeded")
	}
}

// A context that expires while the gate holds a batch: pgx gives up on return, the connection is discarded, the
// pool recovers. Nothing hangs.
func TestContextCancelDuringGate(t *testing.T) {
	s := NewServer()
	release := make(chan struct{})
	s.Gate = func(b Batch) Fault {
		if len(b.SQL) == 1 && strings.HasPrefix(b.SQL[0], "insert") && !b.PrepareOnly {
			<-release
		}
		return FaultNone
	}
	p, err := s.NewPool(bg)
	if err != nil {
		t.Fatal(err)
	}
	defer closePool(t, p)
	mustExec(t, p, "create table t (k int)")
	ctx, cancel := context.WithTimeout(bg, 50*time.Millisecond)
	defer cancel()
	done := make(chan error, 1)
	go func() { _, err := p.Exec(ctx, "insert into t (k) values ($1)", 1); done <- err }()
	time.Sleep(100 * time.Millisecond)
	close(release) // the scheduler finally lets the batch run
	select {
	case err := <-done:
		// The statement did execute on the server; whether pgx reports the timeout depends on timing. Either
		// way the row is committed exactly once and the pool stays usable.
		_ = err
	case <-time.After(5 * time.Second):
		t.Fatal("Exec hangs after context expiry")
	}
	mustExec(t, p, "insert into t (k) values (2)")
	if got := committedKeysOf(s, "t"); got != "1 2" {
		t.Fatal(got)
	}
}

func committedKeysOf(s *Server, table string) string {
	var out []string
	for _, r := range s.Dump(table) {
		out = append(out, renderVal(r.Vals["k"]))
	}
	return strings.Join(out, " ")
}

func TestCopyEdgeCases(t *testing.T) {
	s, p := newPool(t)
	mustExec(t, p, "create table t (k int, v text)")
	n, err := p.CopyFrom(bg, pgx.Identifier{"t"}, []string{"k", "v"}, pgx.CopyFromRows(nil))
	if err != nil || n != 0 {
		t.Fatalf("empty copy: %d %v", n, err)
	}
	big := make([][]any, 20000) // > 1 MB: many CopyData messages
	for i := range big {
		big[i] = []any{i, strings.Repeat("y", 60)}
	}
	n, err = p.CopyFrom(bg, pgx.Identifier{"t"}, []string{"k", "v"}, pgx.CopyFromRows(big))
	if err != nil || n != 20000 || len(s.Dump("t")) != 20000 {
		t.Fatalf("big copy: %d %v", n, err)
	}
	// a source that fails half-way: pgx sends CopyFail, nothing is inserted, the connection stays usable
	_, err = p.CopyFrom(bg, pgx.Identifier{"t"}, []string{"k", "v"}, &failingSource{n: 3})
	if err == nil || !strings.Contains(err.Error(), "source broke") {
		t.Fatalf("failing source: %v", err)
	}
	if len(s.Dump("t")) != 20000 || s.Stats().Conns != 1 {
		t.Fatalf("after failed copy: rows %d conns %d", len(s.Dump("t")), s.Stats().Conns)
	}
	// wrong number of columns / wrong type are client-side or server-side errors, never a hang
	if _, err := p.CopyFrom(bg, pgx.Identifier{"t"}, []string{"k", "v"}, pgx.CopyFromRows([][]any{{1}})); err == nil {
		t.Fatal("short row accepted")
	}
	if _, err := p.CopyFrom(bg, pgx.Identifier{"t"}, []string{"k"}, pgx.CopyFromRows([][]any{{"not a number"}})); err == nil {
		t.Fatal("text into int accepted")
	}
	mustExec(t, p, "insert into t (k) values (-1)")
	noUnsupported(t, s)
}

type failingSource struct{ n, i int }

func (f *failingSource) Next() bool { f.i++; return true }
func (f *failingSource) Values() ([]any, error) {
	if f.i > f.n {
		return nil, errors.New("source broke")
	}
	return []any{f.i, "v"}, nil
}
func (f *failingSource) Err() error { return nil }

type droppingSource struct {
	s    *Server
	i, n int
}

func (d *droppingSource) Next() bool { d.i++; return d.i <= d.n }
func (d *droppingSource) Values() ([]any, error) {
	if d.i == d.n/2 {
		d.s.DropAll() // process death while pgconn's writer goroutine is streaming CopyData
	}
	return []any{d.i, strings.Repeat("z", 200)}, nil
}
func (d *droppingSource) Err() error { return nil }

// DropAll from another goroutine in the middle of a COPY stream: error, no hang, nothing committed (run with -race).
func TestDropAllDuringCopyStream(t *testing.T) {
	s, p, log := newObserved(t)
	mustExec(t, p, "create table t (k int, v text)")
	tx, err := p.Begin(bg)
	if err != nil {
		t.Fatal(err)
	}
	mustExec(t, tx, "insert into t (k, v) values (0, 'pre')")
	err = fast(t, "CopyFrom", func() error {
		_, err := tx.CopyFrom(bg, pgx.Identifier{"t"}, []string{"k", "v"}, &droppingSource{s: s, n: 4000})
		return err
	})
	if err == nil {
		t.Fatal("COPY survived DropAll")
	}
	fast(t, "Rollback", func() error { return tx.Rollback(bg) })
	if ev := log.take(); len(ev) != 1 || ev[0].Kind != "connloss" || len(ev[0].Changes) != 1 {
		t.Fatalf("events: %s", evString(ev))
	}
	if len(s.Dump("t")) != 0 || len(s.Conns()) != 0 {
		t.Fatalf("rows %d sessions %v", len(s.Dump("t")), s.Conns())
	}
	mustExec(t, p, "insert into t (k, v) values (1, 'after')")
}
