package simpg

import (
	"context"
	"errors"
	"fmt"
	"reflect"
	"strings"
	"sync"
	"testing"
	"time"

	"github.com/jackc/pgx/v5"
	"github.com/jackc/pgx/v5/pgconn"
	"github.com/jackc/pgx/v5/pgxpool"
)

// fast runs f and fails the test if it does not return within 5 s (nothing in the fake may ever hang).
func fast(t testing.TB, what string, f func() error) error {
	t.Helper()
	done := make(chan error, 1)
	go func() { done <- f() }()
	select {
	case err := <-done:
		return err
	case <-time.After(5 * time.Second):
		t.Fatalf("%s hangs", what)
		return nil
	}
}

// seqRun drives `begin; insert; copy; insert; commit` through pgxpool, the way shovel's task does.
type seqRun struct {
	mu   sync.Mutex
	step string // the step currently executing (read by the gate)
	tx   pgx.Tx
}

func (r *seqRun) setStep(s string) { r.mu.Lock(); r.step = s; r.mu.Unlock() }
func (r *seqRun) curStep() string  { r.mu.Lock(); defer r.mu.Unlock(); return r.step }

var seqSteps = []string{"begin", "insert1", "copy", "insert2", "commit"}

// run executes the steps until the first error and returns the failing step ("" when all succeeded).
func (r *seqRun) run(p *pgxpool.Pool, base int) (string, error) {
	var err error
	for _, st := range seqSteps {
		r.setStep(st)
		switch st {
		case "begin":
			r.tx, err = p.Begin(bg)
		case "insert1":
			_, err = r.tx.Exec(bg, "insert into t (k, v) values ($1, $2)", base+1, "one")
		case "copy":
			_, err = r.tx.CopyFrom(bg, pgx.Identifier{"t"}, []string{"k", "v"}, pgx.CopyFromRows([][]any{{base + 2, "two"}, {base + 3, "three"}}))
		case "insert2":
			_, err = r.tx.Exec(bg, "insert into t (k, v) values ($1, $2)", base+4, "four")
		case "commit":
			err = r.tx.Commit(bg)
		}
		if err != nil {
			r.setStep("after")
			return st, err
		}
	}
	r.setStep("after")
	return "", nil
}

type seenBatch struct {
	step string
	b    Batch
}

func (sb seenBatch) String() string {
	po := ""
	if sb.b.PrepareOnly {
		po = " prepare-only"
	}
	return fmt.Sprintf("%s: %s%s exec=%q parse=%q tx=%c", sb.step, sb.b.Kind, po, sb.b.SQL, sb.b.Parse, sb.b.TxState)
}

// faultServer returns a server with table t(k int unique, v text) holding one committed row, plus a pool. The
// gate counts the batches of kind query/extended/copydone once armed and answers `fault` for the n-th (0-based).
func faultServer(t testing.TB, n int, fault Fault) (*Server, *pgxpool.Pool, *evLog, *seqRun, *[]seenBatch, func()) {
	t.Helper()
	s := NewServer()
	log := &evLog{}
	s.OnCommit = log.add
	r := &seqRun{}
	var mu sync.Mutex
	var seen []seenBatch
	armed, count := false, 0
	s.Gate = func(b Batch) Fault {
		mu.Lock()
		defer mu.Unlock()
		if !armed || b.Kind == "startup" || b.Kind == "terminate" {
			return FaultNone
		}
		seen = append(seen, seenBatch{r.curStep(), b})
		count++
		if count-1 == n {
			return fault
		}
		return FaultNone
	}
	p0, err := s.NewPool(bg)
	if err != nil {
		t.Fatal(err)
	}
	mustExec(t, p0, "create table t (k int, v text)")
	mustExec(t, p0, "create unique index u_t on t (k)")
	mustExec(t, p0, "insert into t (k, v) values (0, 'pre')")
	p0.Close() // the sequence starts on a fresh connection (id 2) with an empty statement cache
	p, err := s.NewPool(bg)
	if err != nil {
		t.Fatal(err)
	}
	t.Cleanup(func() { closePool(t, p) })
	log.take()
	return s, p, log, r, &seen, func() { mu.Lock(); armed = true; mu.Unlock() }
}

func committedKeys(s *Server) string {
	var out []string
	for _, r := range s.Dump("t") {
		out = append(out, fmt.Sprint(r.Vals["k"]))
	}
	return strings.Join(out, " ")
}

// the batches of the sequence on a fresh connection, as the gate sees them
var seqBatches = []string{
	`begin: query exec=["begin"] parse=[] tx=I`,
	`insert1: extended prepare-only exec=[] parse=["insert into t (k, v) values ($1, $2)"] tx=T`,
	`insert1: extended exec=["insert into t (k, v) values ($1, $2)"] parse=[] tx=T`,
	`copy: extended prepare-only exec=[] parse=["select \"k\", \"v\" from \"t\""] tx=T`,
	`copy: query exec=["copy \"t\" ( \"k\", \"v\" ) from stdin binary"] parse=[] tx=T`,
	`copy: copydone exec=["copy \"t\" ( \"k\", \"v\" ) from stdin binary"] parse=[] tx=T`,
	`insert2: extended exec=["insert into t (k, v) values ($1, $2)"] parse=[] tx=T`,
	`commit: query exec=["commit"] parse=[] tx=T`,
}

func TestGateBatches(t *testing.T) {
	s, p, log, r, seen, arm := faultServer(t, -1, FaultNone)
	arm()
	if st, err := r.run(p, 0); err != nil {
		t.Fatalf("%s: %v", st, err)
	}
	var got []string
	for _, sb := range *seen {
		got = append(got, sb.String())
	}
	if !reflect.DeepEqual(got, seqBatches) {
		t.Fatalf("batches:\n%s\nwant:\n%s", strings.Join(got, "\n"), strings.Join(seqBatches, "\n"))
	}
	for _, sb := range *seen {
		if !sb.b.InTx != (sb.step == "begin") {
			t.Errorf("InTx wrong: %v", sb)
		}
	}
	if got := committedKeys(s); got != "0 1 2 3 4" {
		t.Fatal(got)
	}
	ev := log.take()
	if len(ev) != 1 || ev[0].Kind != "commit" || len(ev[0].Changes) != 4 {
		t.Fatalf("events: %s", evString(ev))
	}
	// startup and terminate are distinguishable by Kind
	kinds := map[string]int{}
	s2 := NewServer()
	s2.Gate = func(b Batch) Fault {
		kinds[b.Kind]++
		if (b.Kind == "startup" || b.Kind == "terminate") && (len(b.SQL) != 0 || b.PrepareOnly || b.Conn != 1) {
			t.Errorf("batch %+v", b)
		}
		return FaultNone
	}
	p2, _ := s2.NewPool(bg)
	mustExec(t, p2, "select 1")
	p2.Close()
	if !reflect.DeepEqual(kinds, map[string]int{"startup": 1, "query": 1, "terminate": 1}) {
		t.Fatalf("kinds: %v", kinds)
	}
}

func TestFaultError(t *testing.T) {
	for n, desc := range seqBatches {
		t.Run(fmt.Sprintf("%d-%s", n, strings.SplitN(desc, " exec", 2)[0]), func(t *testing.T) {
			s, p, log, r, seen, arm := faultServer(t, n, FaultError)
			arm()
			wantStep := strings.SplitN(desc, ":", 2)[0]
			step, err := r.run(p, 0)
			if step != wantStep {
				t.Fatalf("failed at step %q (%v), want %q; batches %v", step, err, wantStep, *seen)
			}
			var pe *pgconn.PgError
			if !errors.As(err, &pe) || pe.Code != "XX000" || pe.Message != "injected fault" || pe.Severity != "ERROR" {
				t.Fatalf("client error: %v", err)
			}
			if got := (*seen)[n].String(); got != desc {
				t.Fatalf("faulted batch %s, want %s", got, desc)
			}
			if got := committedKeys(s); got != "0" {
				t.Fatalf("committed after fault: %s", got)
			}
			switch step {
			case "begin":
				if len(s.OpenTxs()) != 0 || len(log.take()) != 0 {
					t.Fatal("a failed begin opened a transaction")
				}
			case "commit":
				// an error from COMMIT ends the transaction: not committed, session idle, connection kept
				if ev := log.take(); len(ev) != 1 || ev[0].Kind != "rollback" || len(ev[0].Changes) != 4 {
					t.Fatalf("events: %s", evString(ev))
				}
				if len(s.OpenTxs()) != 0 {
					t.Fatal("tx still open after failed commit")
				}
				if err := r.tx.Rollback(bg); !errors.Is(err, pgx.ErrTxClosed) {
					t.Fatalf("rollback after failed commit: %v", err)
				}
			default:
				if len(log.take()) != 0 {
					t.Fatal("event before the end of the transaction")
				}
				if len(s.OpenTxs()) != 1 {
					t.Fatalf("open txs %v", s.OpenTxs())
				}
				if st := r.tx.Conn().PgConn().TxStatus(); st != 'E' {
					t.Fatalf("tx status %c", st)
				}
				_, err := r.tx.Exec(bg, "insert into t (k, v) values ($1, $2)", 50, "x")
				wantCode(t, err, "25P02")
				_, err = r.tx.Exec(bg, "select k from t where k = $1", 1)
				wantCode(t, err, "25P02")
				_, err = r.tx.Exec(bg, "insert into t (k, v) values (51, 'y')")
				wantCode(t, err, "25P02")
				_, err = r.tx.CopyFrom(bg, pgx.Identifier{"t"}, []string{"k", "v"}, pgx.CopyFromRows([][]any{{60, "z"}}))
				wantCode(t, err, "25P02")
				if got := committedKeys(s); got != "0" {
					t.Fatalf("committed: %s", got)
				}
				if err := r.tx.Commit(bg); !errors.Is(err, pgx.ErrTxCommitRollback) {
					t.Fatalf("commit of the aborted tx: %v", err)
				}
				ev := log.take()
				if len(ev) != 1 || ev[0].Kind != "rollback" {
					t.Fatalf("events: %s", evString(ev))
				}
				// the discarded changes are exactly what had been executed before the fault
				wantChanges := map[string]int{"insert1": 0, "copy": 1, "insert2": 3}[step]
				if len(ev[0].Changes) != wantChanges {
					t.Fatalf("discarded changes: %s", evString(ev))
				}
				if err := r.tx.Rollback(bg); !errors.Is(err, pgx.ErrTxClosed) {
					t.Fatalf("deferred rollback: %v", err)
				}
			}
			if got := committedKeys(s); got != "0" {
				t.Fatalf("committed after cleanup: %s", got)
			}
			// the connection survives an ErrorResponse and the whole sequence now works
			if st, err := r.run(p, 0); err != nil {
				t.Fatalf("rerun %s: %v", st, err)
			}
			if got := committedKeys(s); got != "0 1 2 3 4" {
				t.Fatalf("committed after rerun: %s", got)
			}
			wantConns := 2 // the set-up connection + one
			if step == "begin" {
				wantConns = 3 // pgx kills a connection whose BEGIN failed
			}
			if st := s.Stats(); st.Conns != wantConns || st.Errors["XX000"] != 1 {
				t.Fatalf("stats: %+v", st)
			}
			noUnsupported(t, s)
		})
	}
}

func TestFaultDrop(t *testing.T) {
	for n, desc := range seqBatches {
		t.Run(fmt.Sprintf("%d-%s", n, strings.SplitN(desc, " exec", 2)[0]), func(t *testing.T) {
			s, p, log, r, seen, arm := faultServer(t, n, FaultDrop)
			arm()
			wantStep := strings.SplitN(desc, ":", 2)[0]
			var step string
			var err error
			fast(t, "faulted sequence", func() error { step, err = r.run(p, 0); return nil })
			if step != wantStep {
				t.Fatalf("failed at step %q (%v), want %q; batches %v", step, err, wantStep, *seen)
			}
			var pe *pgconn.PgError
			if err == nil || errors.As(err, &pe) {
				t.Fatalf("client error: %v", err)
			}
			if got := committedKeys(s); got != "0" {
				t.Fatalf("committed after drop: %s", got)
			}
			ev := log.take()
			if step == "begin" {
				if len(ev) != 0 {
					t.Fatalf("events: %s", evString(ev))
				}
			} else {
				wantChanges := map[string]int{"insert1": 0, "copy": 1, "insert2": 3, "commit": 4}[step]
				if len(ev) != 1 || ev[0].Kind != "connloss" || len(ev[0].Changes) != wantChanges {
					t.Fatalf("events: %s", evString(ev))
				}
				// everything on the dead connection fails fast; the deferred Rollback does not hang
				if err := fast(t, "Exec on dropped connection", func() error {
					_, err := r.tx.Exec(bg, "insert into t (k, v) values (70, 'x')")
					return err
				}); err == nil {
					t.Fatal("Exec on dropped connection succeeded")
				}
				if err := fast(t, "Commit on dropped connection", func() error { return r.tx.Commit(bg) }); err == nil && step != "commit" {
					t.Fatal("Commit on dropped connection succeeded")
				}
				fast(t, "Rollback on dropped connection", func() error { return r.tx.Rollback(bg) })
			}
			if len(s.OpenTxs()) != 0 || len(s.Conns()) != 0 {
				t.Fatalf("sessions left: %v open %v", s.Conns(), s.OpenTxs())
			}
			// the pool recovers with a new connection
			before := s.Stats().Conns
			fast(t, "rerun", func() error { step, err = r.run(p, 0); return nil })
			if err != nil {
				t.Fatalf("rerun %s: %v", step, err)
			}
			if got := committedKeys(s); got != "0 1 2 3 4" {
				t.Fatalf("committed after rerun: %s", got)
			}
			if st := s.Stats(); st.Conns != before+1 || len(s.Conns()) != 1 || s.Conns()[0] != st.Conns {
				t.Fatalf("no new connection: %+v, sessions %v", st, s.Conns())
			}
			if len(log.take()) != 1 {
				t.Fatal("rerun commit event missing")
			}
			noUnsupported(t, s)
		})
	}
}

// A connection dropped at CopyDone (pgx's CopyFrom has a writer goroutine) must not make pool.Close hang.
func TestFaultDropCopyThenClose(t *testing.T) {
	for _, inTx := range []bool{true, false} {
		for _, kind := range []string{"query", "copydone"} {
			s := NewServer()
			s.Gate = func(b Batch) Fault {
				if b.Kind == kind && len(b.SQL) == 1 && strings.HasPrefix(b.SQL[0], "copy") {
					return FaultDrop
				}
				return FaultNone
			}
			p, err := s.NewPool(bg)
			if err != nil {
				t.Fatal(err)
			}
			mustExec(t, p, "create table t (k int, v text)")
			big := make([][]any, 5000) // several CopyData messages
			for i := range big {
				big[i] = []any{i, strings.Repeat("x", 100)}
			}
			err = fast(t, "CopyFrom", func() error {
				if !inTx {
					_, err := p.CopyFrom(bg, pgx.Identifier{"t"}, []string{"k", "v"}, pgx.CopyFromRows(big))
					return err
				}
				tx, err := p.Begin(bg)
				if err != nil {
					return err
				}
				defer tx.Rollback(bg)
				_, err = tx.CopyFrom(bg, pgx.Identifier{"t"}, []string{"k", "v"}, pgx.CopyFromRows(big))
				return err
			})
			if err == nil {
				t.Fatalf("inTx=%v %s: CopyFrom succeeded", inTx, kind)
			}
			fast(t, "pool.Close after dropped COPY", func() error { p.Close(); return nil })
			if len(s.Dump("t")) != 0 || len(s.Conns()) != 0 {
				t.Fatalf("inTx=%v %s: rows %d sessions %v", inTx, kind, len(s.Dump("t")), s.Conns())
			}
		}
	}
}

func TestFaultStartup(t *testing.T) {
	for _, fault := range []Fault{FaultError, FaultDrop} {
		s := NewServer()
		n := 0
		s.Gate = func(b Batch) Fault {
			if b.Kind == "startup" {
				if n++; n == 1 {
					return fault
				}
			}
			return FaultNone
		}
		p, err := s.NewPool(bg)
		if err != nil {
			t.Fatal(err)
		}
		err = fast(t, "first use", func() error { _, err := p.Exec(bg, "create table t (k int)"); return err })
		if err == nil {
			t.Fatalf("fault %d at startup: no error", fault)
		}
		var pe *pgconn.PgError
		if fault == FaultError && (!errors.As(err, &pe) || pe.Severity != "FATAL" || pe.Code != "XX000") {
			t.Fatalf("startup error: %v", err)
		}
		if len(s.Conns()) != 0 {
			t.Fatalf("sessions: %v", s.Conns())
		}
		mustExec(t, p, "create table t (k int)")
		fast(t, "close", func() error { p.Close(); return nil })
	}
}

func TestDropAllRefuse(t *testing.T) {
	s, p, log := newObserved(t)
	mustExec(t, p, "create table t (k int, v text)")
	mustExec(t, p, "insert into t (k, v) values (1, 'committed')")
	log.take()
	tx, err := p.Begin(bg)
	if err != nil {
		t.Fatal(err)
	}
	mustExec(t, tx, "insert into t (k, v) values (2, 'open')")
	idle := acquire(t, p)
	mustExec(t, idle, "select 1")
	idle.Release()
	if len(s.Conns()) != 2 {
		t.Fatalf("sessions: %v", s.Conns())
	}

	s.DropAll()
	s.Refuse(true)
	if ev := log.take(); len(ev) != 1 || ev[0].Kind != "connloss" || len(ev[0].Changes) != 1 || ev[0].Changes[0].Row.Vals["k"] != int64(2) {
		t.Fatalf("events: %s", evString(ev))
	}
	if len(s.Conns()) != 0 || len(s.OpenTxs()) != 0 {
		t.Fatalf("sessions after DropAll: %v", s.Conns())
	}
	mustFail := func(what string, f func() error) {
		t.Helper()
		start := time.Now()
		if err := fast(t, what, f); err == nil {
			t.Fatalf("%s succeeded while the server is down", what)
		}
		if d := time.Since(start); d > time.Second {
			t.Fatalf("%s took %v", what, d)
		}
	}
	mustFail("tx.Exec", func() error { _, err := tx.Exec(bg, "insert into t (k, v) values (3, 'x')"); return err })
	mustFail("tx.Commit", func() error { return tx.Commit(bg) })
	fast(t, "tx.Rollback", func() error { return tx.Rollback(bg) })
	for i := 0; i < 3; i++ { // both stale pooled connections and fresh dials
		mustFail("pool.Exec", func() error { _, err := p.Exec(bg, "select 1"); return err })
		mustFail("pool.Begin", func() error { _, err := p.Begin(bg); return err })
		mustFail("pool.Query", func() error {
			rows, err := p.Query(bg, "select k from t")
			if err == nil {
				rows.Close()
				err = rows.Err()
			}
			return err
		})
		mustFail("pool.CopyFrom", func() error {
			_, err := p.CopyFrom(bg, pgx.Identifier{"t"}, []string{"k"}, pgx.CopyFromRows([][]any{{9}}))
			return err
		})
		mustFail("pool.Ping", func() error { return p.Ping(bg) })
	}
	mustFail("new pool", func() error {
		p2, err := s.NewPool(bg)
		if err != nil {
			return err
		}
		defer p2.Close()
		_, err = p2.Exec(bg, "select 1")
		return err
	})
	mustFail("context-bound Exec", func() error {
		ctx, cancel := context.WithTimeout(bg, 3*time.Second)
		defer cancel()
		_, err := p.Exec(ctx, "select 1")
		return err
	})
	if got := evString(log.take()); got != "" {
		t.Fatalf("events while down: %s", got)
	}

	s.Refuse(false)
	if got := ints(t, p, "select k from t order by k"); got != "1" {
		t.Fatalf("same pool after restart: %s", got)
	}
	p2, err := s.NewPool(bg)
	if err != nil {
		t.Fatal(err)
	}
	defer p2.Close()
	if got := ints(t, p2, "select k from t order by k"); got != "1" {
		t.Fatalf("new pool after restart: %s", got)
	}
	mustExec(t, p, "insert into t (k, v) values (4, 'after')")
	if got := committedKeys(s); got != "1 4" {
		t.Fatal(got)
	}
}
