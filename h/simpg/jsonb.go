package simpg

import (
	"bytes"
	"encoding/json"
	"sort"
)

// normalizeJSONB renders a JSON text the way PostgreSQL stores and prints a jsonb value: of duplicate object
// keys the LAST one is kept, object keys are ordered by length and then bytewise, insignificant white space
// is dropped and the canonical spacing (`{"a": 1, "b": [1, 2]}`) is used. Numbers keep their spelling.
// (json keeps the submitted text verbatim; only jsonb is normalised.)
func normalizeJSONB(b []byte) ([]byte, bool) {
	dec := json.NewDecoder(bytes.NewReader(b))
	dec.UseNumber()
	v, ok := jsonbValue(dec)
	if !ok {
		return nil, false
	}
	if _, err := dec.Token(); err == nil { // trailing content
		return nil, false
	}
	var out bytes.Buffer
	jsonbWrite(&out, v)
	return out.Bytes(), true
}

type jsonbObject struct {
	keys []string
	vals map[string]any
}

func jsonbValue(dec *json.Decoder) (any, bool) {
	t, err := dec.Token()
	if err != nil {
		return nil, false
	}
	d, isDelim := t.(json.Delim)
	if !isDelim {
		return t, true
	}
	switch d {
	case '{':
		o := &jsonbObject{vals: map[string]any{}}
		for dec.More() {
			kt, err := dec.Token()
			if err != nil {
				return nil, false
			}
			k, ok := kt.(string)
			if !ok {
				return nil, false
			}
			v, ok := jsonbValue(dec)
			if !ok {
				return nil, false
			}
			if _, dup := o.vals[k]; !dup {
				o.keys = append(o.keys, k)
			}
			o.vals[k] = v // last duplicate wins
		}
		if _, err := dec.Token(); err != nil {
			return nil, false
		}
		sort.Slice(o.keys, func(i, j int) bool {
			if len(o.keys[i]) != len(o.keys[j]) {
				return len(o.keys[i]) < len(o.keys[j])
			}
			return o.keys[i] < o.keys[j]
		})
		return o, true
	case '[':
		arr := []any{}
		for dec.More() {
			v, ok := jsonbValue(dec)
			if !ok {
				return nil, false
			}
			arr = append(arr, v)
		}
		if _, err := dec.Token(); err != nil {
			return nil, false
		}
		return arr, true
	}
	return nil, false
}

func jsonbWrite(out *bytes.Buffer, v any) {
	switch x := v.(type) {
	case *jsonbObject:
		out.WriteByte('{')
		for i, k := range x.keys {
			if i > 0 {
				out.WriteString(", ")
			}
			jsonbWriteString(out, k)
			out.WriteString(": ")
			jsonbWrite(out, x.vals[k])
		}
		out.WriteByte('}')
	case []any:
		out.WriteByte('[')
		for i, e := range x {
			if i > 0 {
				out.WriteString(", ")
			}
			jsonbWrite(out, e)
		}
		out.WriteByte(']')
	case string:
		jsonbWriteString(out, x)
	case json.Number:
		out.WriteString(string(x))
	case bool:
		if x {
			out.WriteString("true")
		} else {
			out.WriteString("false")
		}
	case nil:
		out.WriteString("null")
	}
}

func jsonbWriteString(out *bytes.Buffer, s string) {
	var b bytes.Buffer
	enc := json.NewEncoder(&b)
	enc.SetEscapeHTML(false)
	enc.Encode(s)
	out.Write(bytes.TrimRight(b.Bytes(), "\n"))
}
