package simpg

import (
	"errors"
	"fmt"
	"runtime"
	"sync"
	"testing"
	"time"

	"github.com/jackc/pgx/v5"
	"github.com/jackc/pgx/v5/pgconn"
)

// TestLifecycles: 2000 × (new server, new pool, 6 statements + a COPY, close) leak no goroutines and are fast.
func TestLifecycles(t *testing.T) {
	n, limit := 2000, 5*time.Second
	if raceEnabled {
		limit = 60 * time.Second // the race detector slows everything down by an order of magnitude
	}
	runtime.GC()
	before := runtime.NumGoroutine()
	start := time.Now()
	for i := 0; i < n; i++ {
		s := NewServer()
		p, err := s.NewPool(bg)
		if err != nil {
			t.Fatal(err)
		}
		mustExec(t, p, "create table t (k int, v text, n numeric)")
		mustExec(t, p, "create unique index u_t on t (k)")
		tx, err := p.Begin(bg)
		if err != nil {
			t.Fatal(err)
		}
		mustExec(t, tx, "insert into t (k, v, n) values ($1, $2, $3)", 1, "one", uint64(i))
		if _, err := tx.CopyFrom(bg, pgx.Identifier{"t"}, []string{"k", "v", "n"}, pgx.CopyFromRows([][]any{{2, "two", uint64(2)}, {3, nil, nil}})); err != nil {
			t.Fatal(err)
		}
		mustExec(t, tx, "delete from t where k >= $1", 3)
		if err := tx.Commit(bg); err != nil {
			t.Fatal(err)
		}
		var k int
		if err := p.QueryRow(bg, "select k from t order by k desc limit 1").Scan(&k); err != nil || k != 2 {
			t.Fatalf("lifecycle %d: %d %v", i, k, err)
		}
		p.Close()
		if i == 0 && (len(s.Dump("t")) != 2 || len(s.Conns()) != 0) {
			t.Fatalf("state after close: %v %v", s.Dump("t"), s.Conns())
		}
	}
	elapsed := time.Since(start)
	after := runtime.NumGoroutine()
	for i := 0; i < 50 && after > before+5; i++ { // let exiting goroutines finish
		time.Sleep(10 * time.Millisecond)
		after = runtime.NumGoroutine()
	}
	t.Logf("%d lifecycles in %v, goroutines %d -> %d", n, elapsed, before, after)
	if after > before+5 {
		buf := make([]byte, 1<<16)
		t.Fatalf("goroutines grew from %d to %d\n%s", before, after, buf[:runtime.Stack(buf, true)])
	}
	if elapsed > limit {
		t.Fatalf("%d lifecycles took %v (limit %v)", n, elapsed, limit)
	}
}

// TestLifecyclesWithFaults: the same with a dropped connection in every lifecycle (pgx's asynchronous cleanup).
func TestLifecyclesWithFaults(t *testing.T) {
	runtime.GC()
	before := runtime.NumGoroutine()
	for i := 0; i < 300; i++ {
		s := NewServer()
		kind := []string{"query", "extended", "copydone"}[i%3]
		armed := false
		s.Gate = func(b Batch) Fault {
			if armed && b.Kind == kind && b.InTx {
				armed = false
				return FaultDrop
			}
			return FaultNone
		}
		p, err := s.NewPool(bg)
		if err != nil {
			t.Fatal(err)
		}
		mustExec(t, p, "create table t (k int, v text)")
		armed = true
		tx, err := p.Begin(bg)
		if err != nil {
			t.Fatal(err)
		}
		_, err = tx.Exec(bg, "insert into t (k, v) values ($1, $2)", 1, "one")
		if err == nil {
			_, err = tx.CopyFrom(bg, pgx.Identifier{"t"}, []string{"k", "v"}, pgx.CopyFromRows([][]any{{2, "two"}}))
		}
		if err == nil {
			t.Fatalf("lifecycle %d (%s): no error", i, kind)
		}
		tx.Rollback(bg)
		mustExec(t, p, "insert into t (k, v) values (9, 'after')")
		p.Close()
		if got := len(s.Dump("t")); got != 1 {
			t.Fatalf("lifecycle %d: rows %d", i, got)
		}
	}
	after := runtime.NumGoroutine()
	for i := 0; i < 100 && after > before+5; i++ {
		time.Sleep(10 * time.Millisecond)
		after = runtime.NumGoroutine()
	}
	if after > before+5 {
		buf := make([]byte, 1<<16)
		t.Fatalf("goroutines grew from %d to %d\n%s", before, after, buf[:runtime.Stack(buf, true)])
	}
}

// TestConcurrentConnections: real goroutines on separate connections of one server, no harness serialisation.
func TestConcurrentConnections(t *testing.T) {
	s, p, log := newObserved(t)
	var gateMu sync.Mutex
	batches := 0
	s.Gate = func(b Batch) Fault { gateMu.Lock(); batches++; gateMu.Unlock(); return FaultNone }
	mustExec(t, p, "create table t (w int, k int, v text, n numeric)")
	mustExec(t, p, "create unique index u_t on t (w, k)")
	mustExec(t, p, "create table shared (k int)")
	mustExec(t, p, "create unique index u_shared on shared (k)")
	const workers, rounds = 4, 60
	var wg sync.WaitGroup
	errs := make(chan error, workers)
	dups := make([]int, workers)
	for w := 0; w < workers; w++ {
		wg.Add(1)
		go func(w int) {
			defer wg.Done()
			for i := 0; i < rounds; i++ {
				err := func() error {
					tx, err := p.Begin(bg)
					if err != nil {
						return err
					}
					defer tx.Rollback(bg)
					if _, err := tx.Exec(bg, "insert into t (w, k, v, n) values ($1, $2, $3, $4)", w, 2*i, "x", uint64(i)); err != nil {
						return err
					}
					if _, err := tx.CopyFrom(bg, pgx.Identifier{"t"}, []string{"w", "k", "v"}, pgx.CopyFromRows([][]any{{w, 2*i + 1, "copied"}})); err != nil {
						return err
					}
					var n int
					if err := tx.QueryRow(bg, "select k from t where w = $1 order by k desc limit 1", w).Scan(&n); err != nil || n != 2*i+1 {
						return fmt.Errorf("worker %d round %d: own rows: %d %v", w, i, n, err)
					}
					if i%7 == 3 {
						return tx.Rollback(bg)
					}
					if _, err := tx.Exec(bg, "delete from t where w = $1 and k < $2", w, 2*i-10); err != nil {
						return err
					}
					return tx.Commit(bg)
				}()
				if err != nil {
					errs <- err
					return
				}
				// all workers fight for the same keys outside transactions: exactly one wins each key
				if _, err := p.Exec(bg, "insert into shared (k) values ($1)", i); err != nil {
					var pe *pgconn.PgError
					if !errors.As(err, &pe) || pe.Code != "23505" {
						errs <- err
						return
					}
					dups[w]++
				}
				s.StateHash()
				s.Dump("t")
				s.OpenTxs()
				s.Stats()
			}
		}(w)
	}
	wg.Wait()
	close(errs)
	for err := range errs {
		t.Fatal(err)
	}
	total := 0
	for _, d := range dups {
		total += d
	}
	if got := len(s.Dump("shared")); got != rounds || total != (workers-1)*rounds {
		t.Fatalf("shared rows %d, duplicates %d", got, total)
	}
	rows := s.Dump("t")
	for i := 1; i < len(rows); i++ {
		if rows[i-1].ID >= rows[i].ID {
			t.Fatalf("Dump not in RowID order at %d", i)
		}
	}
	perWorker := map[int64]int{}
	for _, r := range rows {
		perWorker[r.Vals["w"].(int64)]++
	}
	for w := int64(0); w < workers; w++ {
		if perWorker[w] == 0 || perWorker[w] != perWorker[0] {
			t.Fatalf("rows per worker: %v", perWorker)
		}
	}
	commits, rollbacks := 0, 0
	for _, e := range log.take() {
		switch e.Kind {
		case "commit":
			commits++
		case "rollback":
			rollbacks++
		}
	}
	wantRollbacks := 0
	for i := 0; i < rounds; i++ {
		if i%7 == 3 {
			wantRollbacks++
		}
	}
	if commits != workers*(rounds-wantRollbacks) || rollbacks != workers*wantRollbacks {
		t.Fatalf("events: %d commits %d rollbacks", commits, rollbacks)
	}
	if len(s.OpenTxs()) != 0 || batches == 0 {
		t.Fatalf("open txs %v, batches %d", s.OpenTxs(), batches)
	}
	if s.Flag("lockwait-ignored") {
		t.Log("note: lockwait-ignored raised (Block hook not set): conflicting inserts were arbitrated at statement time without waiting")
	}
	noUnsupported(t, s)
}
