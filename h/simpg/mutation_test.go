package simpg

import (
	"fmt"
	"math/big"
	"strings"
	"testing"

	"github.com/indexsupply/shovel/shovel"
	"github.com/jackc/pgx/v5/pgxpool"
)

// taskState renders shovel.task_updates as "src/ig/num ..." in RowID order.
func taskState(s *Server) string {
	var out []string
	for _, r := range s.Dump("shovel.task_updates") {
		out = append(out, fmt.Sprintf("%v/%v/%v", r.Vals["src_name"], r.Vals["ig_name"], r.Vals["num"].(*big.Int)))
	}
	return strings.Join(out, " ")
}

// mutationDB: main/a 1..5, main/b 2..3, other/a 7, other/c 9 — restored from a snapshot for every case.
func mutationDB(t *testing.T) (*Server, *pgxpool.Pool, func()) {
	s, p := newPool(t)
	mustExec(t, p, shovel.Schema)
	for _, r := range []struct {
		src, ig string
		lo, hi  uint64
	}{{"main", "a", 1, 5}, {"main", "b", 2, 3}, {"other", "a", 7, 7}, {"other", "c", 9, 9}} {
		for n := r.lo; n <= r.hi; n++ {
			if err := taskUpdatesInsert(t, p, r.src, r.ig, n, []byte{byte(n)}); err != nil {
				t.Fatal(err)
			}
		}
	}
	snap := s.Snapshot()
	return s, p, func() { s.Restore(snap) }
}

const mutInitial = "main/a/1 main/a/2 main/a/3 main/a/4 main/a/5 main/b/2 main/b/3 other/a/7 other/c/9"

// TestSQLMutationSensitivity: the harness mutates shovel's SQL; the fake must react like Postgres would.
func TestSQLMutationSensitivity(t *testing.T) {
	s, p, reset := mutationDB(t)
	if got := taskState(s); got != mutInitial {
		t.Fatal(got)
	}

	// --- Task.Delete ---
	deletes := []struct {
		name, sql string
		args      []any
		want      string // remaining rows; "!CODE" = server error; "!args" = pgx refuses the argument count
	}{
		{"original", taskDeleteSQL, []any{"main", "a", uint64(3)}, "main/a/1 main/a/2 main/b/2 main/b/3 other/a/7 other/c/9"},
		{">= to >", strings.Replace(taskDeleteSQL, "num >= $3", "num > $3", 1), []any{"main", "a", uint64(3)},
			"main/a/1 main/a/2 main/a/3 main/b/2 main/b/3 other/a/7 other/c/9"},
		{">= to <=", strings.Replace(taskDeleteSQL, "num >= $3", "num <= $3", 1), []any{"main", "a", uint64(3)},
			"main/a/4 main/a/5 main/b/2 main/b/3 other/a/7 other/c/9"},
		{">= to =", strings.Replace(taskDeleteSQL, "num >= $3", "num = $3", 1), []any{"main", "a", uint64(3)},
			"main/a/1 main/a/2 main/a/4 main/a/5 main/b/2 main/b/3 other/a/7 other/c/9"},
		{">= to <>", strings.Replace(taskDeleteSQL, "num >= $3", "num <> $3", 1), []any{"main", "a", uint64(3)},
			"main/a/3 main/b/2 main/b/3 other/a/7 other/c/9"},
		// dropping "and ig_name = $2" leaves $2 unreferenced: Postgres cannot type it (42P18)
		{"drop ig conjunct", strings.Replace(taskDeleteSQL, "and ig_name = $2", "", 1), []any{"main", "a", uint64(3)}, "!42P18"},
		// ... and with the parameters renumbered the delete hits every integration of the source
		{"drop ig conjunct renumbered", "delete from shovel.task_updates where src_name = $1 and num >= $2", []any{"main", uint64(3)},
			"main/a/1 main/a/2 main/b/2 other/a/7 other/c/9"},
		{"drop src conjunct renumbered", "delete from shovel.task_updates where ig_name = $1 and num >= $2", []any{"a", uint64(3)},
			"main/a/1 main/a/2 main/b/2 main/b/3 other/c/9"},
		{"drop num conjunct", "delete from shovel.task_updates where src_name = $1 and ig_name = $2", []any{"main", "a"},
			"main/b/2 main/b/3 other/a/7 other/c/9"},
		{"drop num conjunct, stale arg", "delete from shovel.task_updates where src_name = $1 and ig_name = $2", []any{"main", "a", uint64(3)}, "!args"},
		{"and to or", strings.Replace(taskDeleteSQL, "and num >= $3", "or num >= $3", 1), []any{"main", "a", uint64(8)},
			"main/b/2 main/b/3 other/a/7"},
		{"no where", "delete from shovel.task_updates", nil, ""},
	}
	for _, c := range deletes {
		reset()
		_, err := p.Exec(bg, c.sql, c.args...)
		switch {
		case c.want == "!args":
			if !isArgCountErr(err) {
				t.Errorf("delete %s: %v", c.name, err)
			}
		case strings.HasPrefix(c.want, "!"):
			wantCode(t, err, c.want[1:])
			if got := taskState(s); got != mutInitial {
				t.Errorf("delete %s: failed statement changed rows: %s", c.name, got)
			}
		case err != nil:
			t.Errorf("delete %s: %v", c.name, err)
		default:
			if got := taskState(s); got != c.want {
				t.Errorf("delete %s:\n got %s\nwant %s", c.name, got, c.want)
			}
		}
	}
	reset()

	// --- latest / latestDependency: first column of every returned row ---
	queries := []struct {
		name, sql string
		args      []any
		want      string
	}{
		{"latest", latestSQL, []any{"main", "a"}, "5"},
		{"latest desc to asc", strings.Replace(latestSQL, "order by num desc", "order by num asc", 1), []any{"main", "a"}, "1"},
		{"latest no direction", strings.Replace(latestSQL, "order by num desc", "order by num", 1), []any{"main", "a"}, "1"},
		{"latest b", latestSQL, []any{"main", "b"}, "3"},
		{"latest no limit", strings.Replace(latestSQL, "limit 1", "", 1), []any{"main", "a"}, "5 4 3 2 1"},
		{"latest limit 2", strings.Replace(latestSQL, "limit 1", "limit 2", 1), []any{"main", "a"}, "5 4"},
		{"latest drop ig, stale arg", strings.Replace(latestSQL, "and ig_name = $2", "", 1), []any{"main", "a"}, "!args"},
		{"latest drop ig", strings.Replace(latestSQL, "and ig_name = $2", "", 1), []any{"main"}, "5"},
		{"latest drop ig (other)", strings.Replace(latestSQL, "and ig_name = $2", "", 1), []any{"other"}, "9"},
		{"latest of other/a", latestSQL, []any{"other", "a"}, "7"},
		{"latest drop src renumbered", "select num, hash from shovel.task_updates where ig_name = $1 order by num desc limit 1", []any{"a"}, "7"},
		{"latest = to <>", strings.Replace(latestSQL, "ig_name = $2", "ig_name <> $2", 1), []any{"main", "a"}, "3"},

		{"dep", latestDepSQL, []any{"main", []string{"a", "b"}}, "3"},
		{"dep outer asc to desc", strings.Replace(latestDepSQL, "order by num asc", "order by num desc", 1), []any{"main", []string{"a", "b"}}, "5"},
		{"dep inner desc to asc", strings.Replace(latestDepSQL, "order by ig_name, num desc", "order by ig_name, num asc", 1), []any{"main", []string{"a", "b"}}, "1"},
		{"dep inner asc, outer desc", strings.Replace(strings.Replace(latestDepSQL, "order by ig_name, num desc", "order by ig_name, num asc", 1),
			"order by num asc", "order by num desc", 1), []any{"main", []string{"a", "b"}}, "2"},
		{"dep no limit", strings.Replace(latestDepSQL, "limit 1", "", 1), []any{"main", []string{"a", "b"}}, "3 5"},
		{"dep no limit inner asc", strings.Replace(strings.Replace(latestDepSQL, "limit 1", "", 1), "order by ig_name, num desc", "order by ig_name, num asc", 1),
			[]any{"main", []string{"a", "b"}}, "1 2"},
		{"dep single", latestDepSQL, []any{"main", []string{"a"}}, "5"},
		{"dep unknown ig ignored", latestDepSQL, []any{"main", []string{"a", "zz"}}, "5"},
		{"dep empty", latestDepSQL, []any{"main", []string{}}, ""},
		{"dep drop src, stale arg", `with latest as (select distinct on (ig_name) ig_name, num, hash from shovel.task_updates
			where ig_name = ANY($2) order by ig_name, num desc) select num, hash from latest order by num asc limit 1`, []any{"main", []string{"a", "b"}}, "!42P18"},
		{"dep drop src renumbered", `with latest as (select distinct on (ig_name) ig_name, num, hash from shovel.task_updates
			where ig_name = ANY($1) order by ig_name, num desc) select num, hash from latest order by num asc limit 1`, []any{[]string{"a", "b"}}, "3"},
		{"dep drop src renumbered 2", `with latest as (select distinct on (ig_name) ig_name, num, hash from shovel.task_updates
			where ig_name = ANY($1) order by ig_name, num desc) select num, hash from latest order by num asc limit 1`, []any{[]string{"a", "c"}}, "7"},
		{"dep drop any conjunct", `with latest as (select distinct on (ig_name) ig_name, num, hash from shovel.task_updates
			where src_name = $1 order by ig_name, num desc) select num, hash from latest order by num asc`, []any{"other"}, "7 9"},
		{"dep distinct on dropped", strings.Replace(strings.Replace(latestDepSQL, "distinct on (ig_name)", "", 1), "limit 1", "", 1),
			[]any{"main", []string{"a", "b"}}, "1 2 2 3 3 4 5"},
		// DISTINCT ON must match the leftmost ORDER BY expressions (42P10)
		{"dep order by without ig_name", strings.Replace(latestDepSQL, "order by ig_name, num desc", "order by num desc", 1), []any{"main", []string{"a", "b"}}, "!42P10"},
	}
	for _, c := range queries {
		rows, err := p.Query(bg, c.sql, c.args...)
		var got []string
		if err == nil {
			for rows.Next() {
				vals, err := rows.Values()
				if err != nil {
					t.Fatal(err)
				}
				got = append(got, numText(vals[0]))
			}
			err = rows.Err()
		}
		switch {
		case c.want == "!args":
			if !isArgCountErr(err) {
				t.Errorf("%s: %v", c.name, err)
			}
		case strings.HasPrefix(c.want, "!"):
			wantCode(t, err, c.want[1:])
		case err != nil:
			t.Errorf("%s: %v", c.name, err)
		case strings.Join(got, " ") != c.want:
			t.Errorf("%s: got %q want %q", c.name, strings.Join(got, " "), c.want)
		}
	}

	// --- PruneTask ---
	prunes := []struct {
		name, sql string
		n         int
		want      string
	}{
		{"n=1", pruneSQL, 1, "main/a/5 main/b/3 other/a/7 other/c/9"},
		{"n=2", pruneSQL, 2, "main/a/4 main/a/5 main/b/2 main/b/3 other/a/7 other/c/9"},
		{"n=0", pruneSQL, 0, ""},
		{"n=100", pruneSQL, 100, mutInitial},
		{"<= to <", strings.Replace(pruneSQL, "rn <= $1", "rn < $1", 1), 2, "main/a/5 main/b/3 other/a/7 other/c/9"},
		{"window desc to asc", strings.Replace(pruneSQL, "order by num desc", "order by num asc", 1), 2,
			"main/a/1 main/a/2 main/b/2 main/b/3 other/a/7 other/c/9"},
		{"partition without ig_name", strings.Replace(pruneSQL, "partition by src_name, ig_name", "partition by src_name", 1), 2,
			"main/a/4 main/a/5 other/a/7 other/c/9"},
		{"no partition", strings.Replace(pruneSQL, "partition by src_name, ig_name ", "", 1), 2, "other/a/7 other/c/9"},
		{"not in to in", strings.Replace(pruneSQL, "not in", "in", 1), 1, "main/a/1 main/a/2 main/a/3 main/a/4 main/b/2"},
	}
	for _, c := range prunes {
		reset()
		if _, err := p.Exec(bg, c.sql, c.n); err != nil {
			t.Errorf("prune %s: %v", c.name, err)
			continue
		}
		if got := taskState(s); got != c.want {
			t.Errorf("prune %s:\n got %s\nwant %s", c.name, got, c.want)
		}
	}
	noUnsupported(t, s)
}

// numText renders a value decoded by pgx (numeric arrives as pgtype.Numeric) as decimal text.
func numText(v any) string {
	switch x := v.(type) {
	case nil:
		return "NULL"
	case interface{ MarshalJSON() ([]byte, error) }:
		b, _ := x.MarshalJSON()
		return strings.Trim(string(b), `"`)
	case []byte:
		return fmt.Sprintf("\\x%x", x)
	}
	return fmt.Sprint(v)
}

// isArgCountErr recognises pgx's client-side refusal to bind n arguments to a statement with m parameters (the
// server's ParameterDescription decides m, so this is server behaviour seen through pgx).
func isArgCountErr(err error) bool {
	return err != nil && (strings.Contains(err.Error(), "arguments, got") || strings.Contains(err.Error(), "mismatched param and argument count"))
}
