package simpg

import (
	"encoding/binary"
	"fmt"
	"math/big"
	"sort"
	"strings"
)

// All observers take the server mutex; call them between batches (not from inside Gate of the same goroutine
// while another goroutine is executing a batch is fine too — they simply wait).

func parseTableName(name string) qname {
	name = strings.ReplaceAll(name, `"`, "")
	if i := strings.IndexByte(name, '.'); i >= 0 {
		q := qname{name[:i], name[i+1:]}
		if q.schema == "public" {
			q.schema = ""
		}
		return q
	}
	return qname{"", name}
}

// SQLLog returns every simple-Query text and every Parse text in arrival order.
func (s *Server) SQLLog() []string {
	s.mu.Lock()
	defer s.mu.Unlock()
	return append([]string{}, s.sqlLog...)
}

// Tables lists the fully qualified table names, sorted.
func (s *Server) Tables() []string {
	s.mu.Lock()
	defer s.mu.Unlock()
	return s.sortedTableKeys()
}

// Views returns the stored (opaque) view definitions by qualified name.
func (s *Server) Views() map[string]string {
	s.mu.Lock()
	defer s.mu.Unlock()
	return copyMap(s.views)
}

func (s *Server) Columns(table string) []Column {
	s.mu.Lock()
	defer s.mu.Unlock()
	t := s.lookupTable(parseTableName(table))
	if t == nil {
		return nil
	}
	out := make([]Column, len(t.cols))
	for i, c := range t.cols {
		out[i] = Column{Name: c.name, Type: c.typ.Name, OID: c.typ.OID, DDL: c.ddl, NotNull: c.notNull}
	}
	return out
}

func (s *Server) Indexes(table string) []Index {
	s.mu.Lock()
	defer s.mu.Unlock()
	t := s.lookupTable(parseTableName(table))
	if t == nil {
		return nil
	}
	out := make([]Index, len(t.indexes))
	for i, ix := range t.indexes {
		out[i] = Index{ix.name, ix.unique, append([]string{}, ix.cols...), append([]bool{}, ix.desc...)}
	}
	return out
}

// Dump returns the committed rows of a table ordered by row id. Values are copies.
func (s *Server) Dump(table string) []Row {
	s.mu.Lock()
	defer s.mu.Unlock()
	return s.dumpLocked(nil, table)
}

// Committed is an alias of Dump.
func (s *Server) Committed(table string) []Row { return s.Dump(table) }

// hashIgnoredColumns are excluded from StateHash: their values depend on wall-clock / logical time only.
var hashIgnoredColumns = map[string]bool{"insert_at": true, "latency": true}

// StateHash is a 64-bit FNV-1a hash of the committed, user-visible contents of every table: the qualified table
// name and, per row, every (column name, value) pair. Row ids, insertion order, column order, indexes, views and
// the columns named insert_at and latency do not influence it; uncommitted work of open transactions does not
// either. Tables are visited in sorted order, the rows of a table in the order of their canonical encoding, so
// two servers holding the same multiset of rows hash equal however they got there.
func (s *Server) StateHash() uint64 {
	s.mu.Lock()
	defer s.mu.Unlock()
	const offset, prime = 14695981039346656037, 1099511628211
	h := uint64(offset)
	add := func(b []byte) {
		for _, c := range b {
			h = (h ^ uint64(c)) * prime
		}
	}
	for _, k := range s.sortedTableKeys() {
		t := s.tables[k]
		add(appendKey(nil, k))
		order := make([]int, 0, len(t.cols))
		for i, c := range t.cols {
			if !hashIgnoredColumns[c.name] {
				order = append(order, i)
			}
		}
		sort.Slice(order, func(a, b int) bool { return t.cols[order[a]].name < t.cols[order[b]].name })
		encs := make([]string, len(t.rows))
		for i, r := range t.rows {
			var kb []byte
			for _, ci := range order {
				kb = appendKey(kb, t.cols[ci].name)
				var v any
				if ci < len(r.vals) {
					v = r.vals[ci]
				}
				kb = appendKey(kb, v)
			}
			encs[i] = string(kb)
		}
		sort.Strings(encs)
		add(binary.BigEndian.AppendUint32(nil, uint32(len(encs))))
		for _, e := range encs {
			add(binary.BigEndian.AppendUint32(nil, uint32(len(e))))
			add([]byte(e))
		}
	}
	return h
}

// DumpTx returns the rows as the open transaction of connection conn sees them (committed rows if it has none).
func (s *Server) DumpTx(conn int, table string) []Row {
	s.mu.Lock()
	defer s.mu.Unlock()
	for _, c := range s.conns {
		if c.id == conn {
			return s.dumpLocked(c.tx, table)
		}
	}
	return s.dumpLocked(nil, table)
}

func (s *Server) dumpLocked(tx *txn, table string) []Row {
	t := s.lookupTable(parseTableName(table))
	if t == nil {
		return nil
	}
	rows := s.visible(tx, t)
	out := make([]Row, len(rows))
	for i, r := range rows {
		out[i] = s.exportRow(t, r)
	}
	return out
}

// DeleteWhere removes committed rows (harness surgery; no event, no transaction).
func (s *Server) DeleteWhere(table string, pred func(Row) bool) int {
	s.mu.Lock()
	defer s.mu.Unlock()
	t := s.lookupTable(parseTableName(table))
	if t == nil {
		return 0
	}
	kept := make([]*row, 0, len(t.rows))
	for _, r := range t.rows {
		if !pred(s.exportRow(t, r)) {
			kept = append(kept, r)
		}
	}
	n := len(t.rows) - len(kept)
	t.rows = kept
	return n
}

// InsertRow adds a committed row (harness surgery). Values are given as Go values: integers of any size,
// *big.Int or decimal strings for numeric columns; []byte; string; bool; nil. Defaults, NOT NULL and unique
// indexes apply.
func (s *Server) InsertRow(table string, vals map[string]any) error {
	s.mu.Lock()
	defer s.mu.Unlock()
	t := s.lookupTable(parseTableName(table))
	if t == nil {
		return fmt.Errorf("simpg: no table %q", table)
	}
	rv := make([]any, len(t.cols))
	set := make([]bool, len(t.cols))
	for name, v := range vals {
		i := t.colIndex(name)
		if i < 0 {
			return fmt.Errorf("simpg: no column %q in %q", name, table)
		}
		rv[i], set[i] = fromGo(t.cols[i].typ, v), true
	}
	x := &execCtx{s: s, c: &conn{}, tx: newTxn(nil, false), ignore: map[*txn]bool{}}
	for _, o := range s.otherOpenTxs(nil) {
		x.ignore[o] = true
	}
	if err := x.completeRow(t, rv, set); err != nil {
		return err
	}
	if err := x.checkUnique(t, [][]any{rv}, nil); err != nil {
		return err
	}
	s.nextRowID++
	t.rows = append(t.rows[:len(t.rows):len(t.rows)], &row{id: s.nextRowID, vals: rv})
	return nil
}

// fromGo normalises a harness-supplied Go value to the evaluator's value domain.
func fromGo(t *Type, v any) any {
	switch x := v.(type) {
	case int:
		return int64(x)
	case int8:
		return int64(x)
	case int16:
		return int64(x)
	case int32:
		return int64(x)
	case uint8:
		return int64(x)
	case uint16:
		return int64(x)
	case uint32:
		return int64(x)
	case uint:
		return new(big.Int).SetUint64(uint64(x))
	case uint64:
		if t.kind == kNumeric || x > 1<<62 {
			return new(big.Int).SetUint64(x)
		}
		return int64(x)
	case string:
		if t.kind != kText {
			return unk(x)
		}
		return x
	case *big.Int:
		return new(big.Int).Set(x)
	case []byte:
		return append([]byte{}, x...)
	}
	return v
}

func (s *Server) Notifications() []Notification {
	s.mu.Lock()
	defer s.mu.Unlock()
	return append([]Notification{}, s.notifications...)
}

// AdvisoryLocks lists every pg_advisory_xact_lock acquisition in order.
func (s *Server) AdvisoryLocks() []AdvisoryLock {
	s.mu.Lock()
	defer s.mu.Unlock()
	return append([]AdvisoryLock{}, s.advLocks...)
}

// Unsupported lists statements (or internal problems) outside the fake's subset; non-empty means the run
// must not be trusted.
func (s *Server) Unsupported() []string {
	s.mu.Lock()
	defer s.mu.Unlock()
	return append([]string{}, s.unsupported...)
}

// Flag reports whether a named flag (e.g. "lockwait-ignored") has been raised.
func (s *Server) Flag(name string) bool {
	s.mu.Lock()
	defer s.mu.Unlock()
	return s.Flags[name]
}

// OpenTxs lists the connection ids with an open explicit transaction, ascending.
func (s *Server) OpenTxs() []int {
	s.mu.Lock()
	defer s.mu.Unlock()
	return s.openTxsLocked()
}

// Conns lists the ids of the open sessions, ascending.
func (s *Server) Conns() []int {
	s.mu.Lock()
	defer s.mu.Unlock()
	out := make([]int, len(s.conns))
	for i, c := range s.conns {
		out[i] = c.id
	}
	return out
}

func (s *Server) Stats() Stats {
	s.mu.Lock()
	defer s.mu.Unlock()
	st := s.stats
	st.Errors = copyMap(s.stats.Errors)
	return st
}
