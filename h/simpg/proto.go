package simpg

import (
	"bytes"
	"encoding/binary"
	"fmt"
	"runtime/debug"

	"github.com/jackc/pgx/v5/pgproto3"
)

// ---- backend message writer ----

type wbuf struct{ b []byte }

func (w *wbuf) msg(typ byte, body func()) {
	w.b = append(w.b, typ, 0, 0, 0, 0)
	at := len(w.b) - 4
	if body != nil {
		body()
	}
	binary.BigEndian.PutUint32(w.b[at:], uint32(len(w.b)-at))
}

func (w *wbuf) cstr(s string)       { w.b = append(append(w.b, s...), 0) }
func (w *wbuf) i16(v int)           { w.b = binary.BigEndian.AppendUint16(w.b, uint16(v)) }
func (w *wbuf) i32(v int)           { w.b = binary.BigEndian.AppendUint32(w.b, uint32(v)) }
func (w *wbuf) simple(t byte)       { w.msg(t, nil) }
func (w *wbuf) ready(st byte)       { w.msg('Z', func() { w.b = append(w.b, st) }) }
func (w *wbuf) complete(tag string) { w.msg('C', func() { w.cstr(tag) }) }

func (w *wbuf) errorResponse(severity string, e *pgErr) {
	w.msg('E', func() {
		w.b = append(w.b, 'S')
		w.cstr(severity)
		w.b = append(w.b, 'V')
		w.cstr(severity)
		w.b = append(w.b, 'C')
		w.cstr(e.Code)
		w.b = append(w.b, 'M')
		w.cstr(e.Msg)
		if e.Detail != "" {
			w.b = append(w.b, 'D')
			w.cstr(e.Detail)
		}
		w.b = append(w.b, 0)
	})
}

func (w *wbuf) rowDescription(cols []colDesc, formats []int16) {
	w.msg('T', func() {
		w.i16(len(cols))
		for i, c := range cols {
			w.cstr(c.name)
			w.i32(0)
			w.i16(0)
			w.i32(int(c.typ.OID))
			w.i16(int(c.typ.size))
			w.i32(-1)
			w.i16(int(formatFor(formats, i)))
		}
	})
}

func formatFor(formats []int16, i int) int16 {
	switch {
	case len(formats) == 0:
		return 0
	case len(formats) == 1:
		return formats[0]
	case i < len(formats):
		return formats[i]
	}
	return 0
}

func (w *wbuf) dataRows(rel *relation, formats []int16) *pgErr {
	for _, r := range rel.rows {
		var err *pgErr
		w.msg('D', func() {
			w.i16(len(r))
			for i, v := range r {
				if v == nil {
					w.i32(-1)
					continue
				}
				var b []byte
				if b, err = encodeValue(rel.cols[i].typ, formatFor(formats, i), v); err != nil {
					return
				}
				w.i32(len(b))
				w.b = append(w.b, b...)
			}
		})
		if err != nil {
			return err
		}
	}
	return nil
}

// ---- batch description (runs before the gate) ----

type portal struct {
	stmt    *prepared
	params  []any
	formats []int16
}

func cstring(b []byte) string {
	if i := bytes.IndexByte(b, 0); i >= 0 {
		return string(b[:i])
	}
	return string(b)
}

// describeBatch decodes the messages and builds the Batch handed to the gate. It also feeds the SQL log.
func (s *Server) describeBatch(c *conn, kind string, msgs []fmsg) Batch {
	b := Batch{Conn: c.id, Seq: s.seq, Kind: kind, TxState: c.txState()}
	b.InTx = b.TxState != 'I'
	switch kind {
	case "query":
		sql := cstring(msgs[0].body)
		s.sqlLog = append(s.sqlLog, sql)
		raws, err := splitStatements(sql)
		if err != nil {
			msgs[0].dec = err
			b.SQL = []string{sql}
			break
		}
		msgs[0].dec = raws
		for _, r := range raws {
			b.SQL = append(b.SQL, r.text)
		}
	case "copydone":
		if c.copy != nil {
			b.SQL = []string{c.copy.sql}
		}
	case "extended":
		parsed, bound := map[string]string{}, map[string]string{}
		b.PrepareOnly = true
		for i := range msgs {
			if msgs[i].typ == 'E' {
				b.PrepareOnly = false
			}
		}
		for i := range msgs {
			m := &msgs[i]
			var err error
			switch m.typ {
			case 'P':
				d := &pgproto3.Parse{}
				if err = d.Decode(m.body); err == nil {
					m.dec = d
					s.sqlLog = append(s.sqlLog, d.Query)
					parsed[d.Name] = d.Query
					b.Parse = append(b.Parse, d.Query)
				}
			case 'B':
				d := &pgproto3.Bind{}
				if err = d.Decode(m.body); err == nil {
					m.dec = d
					if sql, ok := parsed[d.PreparedStatement]; ok {
						bound[d.DestinationPortal] = sql
					} else if p := c.stmts[d.PreparedStatement]; p != nil {
						bound[d.DestinationPortal] = p.sql
					}
				}
			case 'E':
				d := &pgproto3.Execute{}
				if err = d.Decode(m.body); err == nil {
					m.dec = d
					if sql, ok := bound[d.Portal]; ok {
						b.SQL = append(b.SQL, sql)
					} else if p := c.portals[d.Portal]; p != nil {
						b.SQL = append(b.SQL, p.stmt.sql)
					}
				}
			case 'D':
				d := &pgproto3.Describe{}
				if err = d.Decode(m.body); err == nil {
					m.dec = d
				}
			case 'C':
				d := &pgproto3.Close{}
				if err = d.Decode(m.body); err == nil {
					m.dec = d
				}
			}
			if err != nil {
				m.dec = errf("08P01", "invalid message format: %v", err)
			}
		}
	}
	return b
}

func (c *conn) txState() byte {
	switch {
	case c.failed:
		return 'E'
	case c.tx != nil && c.tx.explicit:
		return 'T'
	}
	return 'I'
}

// ---- batch execution ----

type batchOut struct {
	reply  []byte
	events []CommitEvent
	copy   *copyState // enter (or stay in) CopyIn mode
}

var errInjected = &pgErr{Code: "XX000", Msg: "injected fault"}

// sendErr writes an ErrorResponse, counts it, records unsupported SQL and moves the transaction to the failed
// state (explicit) or rolls it back (implicit).
func (s *Server) sendErr(c *conn, w *wbuf, e *pgErr, sql string, seq int) {
	s.stats.Errors[e.Code]++
	if e.Unsupported {
		s.noteUnsupported(sql)
	}
	w.errorResponse("ERROR", e)
	if c.tx != nil {
		if c.tx.explicit {
			c.failed = true
		} else {
			s.endTx(c, "rollback", seq)
		}
	}
}

// finishBatch commits an implicit transaction and reports the transaction status.
func (s *Server) finishBatch(c *conn, w *wbuf, seq int) {
	if c.tx != nil && !c.tx.explicit {
		s.endTx(c, "autocommit", seq)
	}
	w.ready(c.txState())
}

// process executes one batch under the server mutex and returns the reply bytes. It never panics because of
// its own bugs (they become ErrorResponse XX000 + an Unsupported entry); a panic raised by the Block hook
// propagates to the caller.
func (s *Server) process(c *conn, b Batch, msgs []fmsg, fault Fault) (out batchOut) {
	w := &wbuf{}
	lk := &lockHeld{held: true}
	s.mu.Lock()
	defer func() {
		if !lk.held {
			return // unwinding out of the Block hook: the mutex is not ours
		}
		if r := recover(); r != nil {
			s.noteUnsupported(fmt.Sprintf("internal error: %v in %q\n%s", r, b.SQL, debug.Stack()))
			if !c.dead {
				s.sendErr(c, w, errf("XX000", "simpg internal error: %v", r), "", b.Seq)
				if b.Kind == "startup" {
					s.dropLocked(c, b.Seq)
				} else {
					s.finishBatch(c, w, b.Seq)
				}
			}
			out.copy = nil
		}
		out.reply = w.b
		out.events = s.takeEvents()
		s.mu.Unlock()
	}()
	if c.dead {
		return
	}
	if fault == FaultDrop || b.Kind == "terminate" {
		s.dropLocked(c, b.Seq)
		return
	}
	if fault == FaultError {
		if b.Kind == "startup" {
			s.stats.Errors[errInjected.Code]++
			w.errorResponse("FATAL", errInjected)
			s.dropLocked(c, b.Seq)
			return
		}
		if c.tx != nil && c.tx.explicit && len(b.SQL) > 0 && endsTx(b.SQL[0]) {
			// An error raised by COMMIT (or ROLLBACK) itself ends the transaction block, as in Postgres: nothing is
			// committed and the session is idle again.
			s.endTx(c, "rollback", b.Seq)
		}
		s.sendErr(c, w, errInjected, "", b.Seq)
		s.finishBatch(c, w, b.Seq)
		return
	}
	switch b.Kind {
	case "startup":
		w.msg('R', func() { w.i32(0) })
		for _, kv := range [][2]string{{"server_version", "15.0"}, {"server_encoding", "UTF8"}, {"client_encoding", "UTF8"},
			{"standard_conforming_strings", "on"}, {"integer_datetimes", "on"}, {"DateStyle", "ISO, MDY"},
			{"IntervalStyle", "postgres"}, {"TimeZone", "UTC"}, {"session_authorization", "u"}, {"is_superuser", "on"}} {
			w.msg('S', func() { w.cstr(kv[0]); w.cstr(kv[1]) })
		}
		w.msg('K', func() { w.i32(c.id); w.i32(0x5133) })
		w.ready('I')
	case "query":
		out.copy = s.simpleQuery(c, w, &msgs[0], b.Seq, lk)
	case "copydone":
		s.copyDone(c, w, msgs[0], b.Seq, lk)
	case "extended":
		s.extended(c, w, msgs, b.Seq, lk)
	}
	return
}

func (s *Server) parseRaw(rs rawStmt) (*prepared, *pgErr) {
	ast, err := parseStatement(rs)
	if err != nil {
		return nil, err
	}
	return &prepared{sql: rs.text, ast: ast}, nil
}

func (s *Server) simpleQuery(c *conn, w *wbuf, m *fmsg, seq int, lk *lockHeld) *copyState {
	sql := cstring(m.body)
	if err, bad := m.dec.(*pgErr); bad {
		s.sendErr(c, w, err, sql, seq)
		s.finishBatch(c, w, seq)
		return nil
	}
	raws := m.dec.([]rawStmt)
	if len(raws) == 0 {
		w.simple('I') // EmptyQueryResponse
		s.finishBatch(c, w, seq)
		return nil
	}
	stmts := make([]*prepared, len(raws))
	for i, rs := range raws { // like Postgres, parse the whole string before executing anything
		p, err := s.parseRaw(rs)
		if err != nil {
			s.sendErr(c, w, err, rs.text, seq)
			s.finishBatch(c, w, seq)
			return nil
		}
		stmts[i] = p
	}
	for i, p := range stmts {
		res, err := s.execStmt(c, p, nil, seq, lk)
		if err == nil && res.copy != nil && i != len(stmts)-1 {
			err = unsupportedf("COPY FROM STDIN must be the last statement of a query string in simpg")
		}
		if err == nil && res.rel != nil {
			mark := len(w.b)
			w.rowDescription(res.rel.cols, nil)
			if err = w.dataRows(res.rel, nil); err != nil {
				w.b = w.b[:mark]
			}
		}
		if err != nil {
			s.sendErr(c, w, err, p.sql, seq)
			break
		}
		if res.copy != nil {
			n := len(res.copy.cols)
			if n == 0 {
				if t := s.lookupTable(res.copy.table); t != nil {
					n = len(t.cols)
				}
			}
			w.msg('G', func() {
				w.b = append(w.b, 1)
				w.i16(n)
				for k := 0; k < n; k++ {
					w.i16(1)
				}
			})
			return res.copy
		}
		w.complete(res.tag)
	}
	s.finishBatch(c, w, seq)
	return nil
}

// copyDataStmt is the pseudo statement executed at CopyDone.
type copyDataStmt struct{ cs *copyState }

func (s *Server) copyDone(c *conn, w *wbuf, m fmsg, seq int, lk *lockHeld) {
	cs := c.copy
	if cs == nil {
		return
	}
	var res *result
	var err *pgErr
	if m.typ == 'f' {
		err = errf("57014", "COPY from stdin failed: %s", cstring(m.body))
	} else {
		res, err = s.execStmt(c, &prepared{sql: cs.sql, ast: &copyDataStmt{cs}}, nil, seq, lk)
	}
	if err != nil {
		s.sendErr(c, w, err, cs.sql, seq)
	} else {
		w.complete(res.tag)
	}
	s.finishBatch(c, w, seq)
}

// endsTx reports whether sql is a single COMMIT / END / ROLLBACK / ABORT statement.
func endsTx(sql string) bool {
	raws, err := splitStatements(sql)
	if err != nil || len(raws) != 1 {
		return false
	}
	ast, err := parseStatement(raws[0])
	return err == nil && isTxControl(ast)
}

func isTxControl(ast any) bool {
	tx, ok := ast.(*txStmt)
	return ok && tx.kind != "begin"
}

var errAborted = &pgErr{Code: "25P02", Msg: "current transaction is aborted, commands ignored until end of transaction block"}

func (s *Server) extended(c *conn, w *wbuf, msgs []fmsg, seq int, lk *lockHeld) {
	skip := false
	fail := func(e *pgErr, sql string) {
		s.sendErr(c, w, e, sql, seq)
		skip = true
	}
	for _, m := range msgs {
		if m.typ == 'S' {
			c.portals = map[string]*portal{}
			s.finishBatch(c, w, seq)
			return
		}
		if skip {
			continue
		}
		if e, bad := m.dec.(*pgErr); bad {
			fail(e, "")
			continue
		}
		switch d := m.dec.(type) {
		case *pgproto3.Parse:
			p, err := s.prepare(c, d)
			if err != nil {
				fail(err, d.Query)
				continue
			}
			c.stmts[d.Name] = p
			w.simple('1')
		case *pgproto3.Bind:
			p := c.stmts[d.PreparedStatement]
			if p == nil {
				fail(errf("26000", "prepared statement %q does not exist", d.PreparedStatement), "")
				continue
			}
			if c.failed && !isTxControl(p.ast) {
				fail(errAborted, p.sql)
				continue
			}
			params, err := bindParams(p, d)
			if err != nil {
				fail(err, p.sql)
				continue
			}
			c.portals[d.DestinationPortal] = &portal{p, params, d.ResultFormatCodes}
			w.simple('2')
		case *pgproto3.Describe:
			var p *prepared
			var formats []int16
			if d.ObjectType == 'S' {
				if p = c.stmts[d.Name]; p == nil {
					fail(errf("26000", "prepared statement %q does not exist", d.Name), "")
					continue
				}
				w.msg('t', func() {
					w.i16(len(p.info.params))
					for _, t := range p.info.params {
						w.i32(int(t.OID))
					}
				})
			} else {
				po := c.portals[d.Name]
				if po == nil {
					fail(errf("34000", "portal %q does not exist", d.Name), "")
					continue
				}
				p, formats = po.stmt, po.formats
			}
			if p.info.returnsRows {
				w.rowDescription(p.info.cols, formats)
			} else {
				w.simple('n')
			}
		case *pgproto3.Execute:
			po := c.portals[d.Portal]
			if po == nil {
				fail(errf("34000", "portal %q does not exist", d.Portal), "")
				continue
			}
			if po.stmt.ast == nil {
				w.simple('I')
				continue
			}
			res, err := s.execStmt(c, po.stmt, po.params, seq, lk)
			if err == nil && res.copy != nil {
				err = unsupportedf("COPY through the extended protocol is not supported by simpg")
			}
			if err == nil && res.rel != nil {
				mark := len(w.b)
				if err = w.dataRows(res.rel, po.formats); err != nil {
					w.b = w.b[:mark]
				}
			}
			if err != nil {
				fail(err, po.stmt.sql)
				continue
			}
			w.complete(res.tag)
		case *pgproto3.Close:
			if d.ObjectType == 'S' {
				delete(c.stmts, d.Name)
			} else {
				delete(c.portals, d.Name)
			}
			w.simple('3')
		default:
			fail(errf("08P01", "unexpected message type %q", string(m.typ)), "")
		}
	}
	// a batch always ends with Sync; reaching this point means the framing is broken
	s.finishBatch(c, w, seq)
}

// prepare handles a Parse message: parse, analyse, infer parameter types.
func (s *Server) prepare(c *conn, d *pgproto3.Parse) (*prepared, *pgErr) {
	if d.Name != "" && c.stmts[d.Name] != nil {
		return nil, errf("42P05", "prepared statement %q already exists", d.Name)
	}
	raws, err := splitStatements(d.Query)
	if err != nil {
		return nil, err
	}
	if len(raws) > 1 {
		return nil, errf("42601", "cannot insert multiple commands into a prepared statement")
	}
	p := &prepared{name: d.Name, sql: d.Query, info: &stmtInfo{}}
	if len(raws) == 0 {
		return p, nil
	}
	if p.ast, err = parseStatement(raws[0]); err != nil {
		return nil, err
	}
	if c.failed && !isTxControl(p.ast) {
		return nil, errAborted
	}
	if p.info, err = s.analyze(p.ast, d.ParameterOIDs); err != nil {
		return nil, err
	}
	return p, nil
}

func bindParams(p *prepared, d *pgproto3.Bind) ([]any, *pgErr) {
	want := p.info.params
	if len(d.Parameters) != len(want) {
		return nil, errf("08P01", "bind message supplies %d parameters, but prepared statement %q requires %d",
			len(d.Parameters), p.name, len(want))
	}
	if n := len(d.ParameterFormatCodes); n > 1 && n != len(want) {
		return nil, errf("08P01", "bind message has %d parameter formats but %d parameters", n, len(want))
	}
	out := make([]any, len(want))
	for i, raw := range d.Parameters {
		v, err := decodeValue(want[i], formatFor(d.ParameterFormatCodes, i), raw)
		if err != nil {
			err.Msg = fmt.Sprintf("parameter $%d: %s", i+1, err.Msg)
			return nil, err
		}
		out[i] = v
	}
	return out, nil
}
