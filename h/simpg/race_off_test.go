//go:build !race

package simpg

const raceEnabled = false
