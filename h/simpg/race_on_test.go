//go:build race

package simpg

const raceEnabled = true
