// Package simpg is an in-memory, wire-protocol-level fake PostgreSQL server that sits behind the real
// pgx/pgxpool through ConnConfig.DialFunc. It interprets the small SQL subset issued by indexsupply/shovel,
// enforces unique indexes and READ COMMITTED transaction overlays, and exposes observation and
// fault-injection hooks. There is no server goroutine: every batch executes synchronously inside
// net.Conn.Write on the caller's goroutine. See SPEC.md and NOTES.md.
package simpg

import (
	"context"
	"errors"
	"net"
	"sort"
	"sync"
	"sync/atomic"
	"time"

	"github.com/jackc/pgx/v5/pgxpool"
)

// Fault is the decision of Server.Gate for one batch.
type Fault int

const (
	FaultNone  Fault = iota
	FaultError       // do not execute; answer ErrorResponse XX000 "injected fault"
	FaultDrop        // close the connection without replying
)

// Batch describes one unit of client→server work (everything up to a Sync / Query / CopyDone / Terminate). It is
// what Server.Gate sees before the batch executes. Kind is exactly one of:
//
//	"startup"   the StartupMessage of a new connection (authentication handshake). SQL is empty. Conn is the id
//	            the new session gets. No SQL state can be touched; a harness normally lets it pass (FaultNone).
//	"query"     one simple-protocol Query message. SQL holds its ';'-separated statements (one entry each, in
//	            order). pgx sends begin / commit / rollback, argument-less Exec calls (e.g. the schema script) and
//	            `copy … from stdin binary` this way. A COPY statement only switches the session to copy-in mode;
//	            its rows arrive later in a "copydone" batch.
//	"extended"  an extended-protocol round trip: any of Parse / Bind / Describe / Execute / Close, ended by Sync.
//	            SQL holds the text of every statement EXECUTED in this batch (one entry per Execute message, in
//	            order). Parse holds the text of every statement parsed (prepared) in this batch. PrepareOnly is
//	            true when the batch contains no Execute message at all: pgx's statement-cache "prepare" round trip
//	            (Parse+Describe+Sync), including the `select "c1",… from "T"` that CopyFrom prepares to learn the
//	            column types, and Close/Deallocate round trips. Such a batch cannot change or read table data (it
//	            only reads the catalog), so a harness may treat it as invisible.
//	"copydone"  the CopyDone (or CopyFail) message that ends a COPY … FROM STDIN; all CopyData received since the
//	            COPY statement is parsed and inserted now. SQL holds the COPY statement.
//	"terminate" the Terminate message (graceful client close). SQL is empty. The session ends whatever the gate
//	            answers; an open transaction is rolled back ("connloss").
//
// PrepareOnly is false for every kind other than "extended".
type Batch struct {
	Conn        int
	Seq         int
	Kind        string   // "startup", "query", "extended", "copydone", "terminate"
	SQL         []string // statements that will execute
	Parse       []string // statements that are being prepared in this batch (extended only)
	PrepareOnly bool     // extended batch without any Execute message
	InTx        bool     // an explicit transaction is open (state T or E)
	TxState     byte     // 'I', 'T', 'E'
}

type Row struct {
	ID   int64
	Vals map[string]any
}

type Change struct {
	Table string
	Op    string // "insert" | "delete"
	Row   Row
}

type CommitEvent struct {
	Conn    int
	Seq     int
	Kind    string // "commit" | "autocommit" | "rollback" | "connloss"
	Changes []Change
}

type Notification struct {
	Conn             int
	Channel, Payload string
}

type AdvisoryLock struct {
	Conn int
	Key  int64
}

type Column struct {
	Name    string
	Type    string // information_schema data_type spelling
	OID     uint32
	DDL     string // type name as written in the DDL (lower-cased)
	NotNull bool
}

type Index struct {
	Name   string
	Unique bool
	Cols   []string
	Desc   []bool
}

type Stats struct {
	Conns, Batches, Statements, Commits, Rollbacks, Copies, RowsCopied int
	Errors                                                             map[string]int // by SQLSTATE
}

// Server is one fake database cluster. Set the hook fields before creating pools.
type Server struct {
	Gate     func(Batch) Fault       // called before every batch, outside the server mutex
	Exec     func(run func())        // wraps the execution of a batch
	Block    func(ready func() bool) // called (mutex released) when a statement must wait for another tx to end
	OnCommit func(CommitEvent)       // fired after the state change, outside the server mutex
	Now      func() time.Time        // value of now(); default is a deterministic logical clock
	Flags    map[string]bool         // "lockwait-ignored", ...

	mu            sync.Mutex
	schemas       map[string]bool
	tables        map[string]*table
	views         map[string]string
	conns         []*conn // open sessions in id order
	nextConn      int
	seq           int
	nextRowID     int64
	clock         int64
	refuse        atomic.Bool
	sqlLog        []string
	unsupported   []string
	notifications []Notification
	advLocks      []AdvisoryLock
	stats         Stats
	pending       []CommitEvent
}

type table struct {
	schema, name string
	cols         []*column
	rows         []*row // committed, ordered by id
	indexes      []*index
}

type column struct {
	name    string
	typ     *Type
	ddl     string
	notNull bool
	def     expr
}

type index struct {
	name   string
	unique bool
	cols   []string
	desc   []bool
}

type row struct {
	id   int64
	vals []any // aligned with table.cols; values are immutable
}

func (t *table) key() string { return t.schema + "." + t.name }

func (t *table) colIndex(name string) int {
	for i, c := range t.cols {
		if c.name == name {
			return i
		}
	}
	return -1
}

type change struct {
	t      *table
	insert bool
	r      *row
}

// txn is the overlay of one open transaction.
type txn struct {
	conn     *conn
	explicit bool
	ended    atomic.Bool
	inserted map[*table][]*row
	deleted  map[*table]map[int64]*row
	ops      []*change // net changes in operation order
	undo     []func()  // DDL undo log
	notes    []Notification
	advLocks map[int64]bool
	start    int64 // value of now() / transaction_timestamp(): fixed when the transaction starts
	started  bool
}

// begin fixes the transaction timestamp.
func (tx *txn) begin(now int64) *txn {
	tx.start, tx.started = now, true
	return tx
}

func newTxn(c *conn, explicit bool) *txn {
	return &txn{conn: c, explicit: explicit, inserted: map[*table][]*row{}, deleted: map[*table]map[int64]*row{}}
}

func NewServer() *Server {
	return &Server{
		Flags:   map[string]bool{},
		schemas: map[string]bool{"public": true},
		tables:  map[string]*table{},
		views:   map[string]string{},
		stats:   Stats{Errors: map[string]int{}},
	}
}

// PoolConfig returns a pgxpool configuration whose connections are served by s.
func (s *Server) PoolConfig() *pgxpool.Config {
	cfg, err := pgxpool.ParseConfig("postgres://u@sim/db?sslmode=disable")
	if err != nil {
		panic(err)
	}
	cfg.ConnConfig.DialFunc = s.Dial
	cfg.ConnConfig.LookupFunc = func(ctx context.Context, host string) ([]string, error) { return []string{host}, nil }
	cfg.MaxConns = 64
	cfg.MinConns = 0
	cfg.HealthCheckPeriod = time.Hour
	cfg.MaxConnLifetime = 24 * time.Hour
	cfg.MaxConnIdleTime = 24 * time.Hour
	return cfg
}

func (s *Server) NewPool(ctx context.Context) (*pgxpool.Pool, error) {
	return pgxpool.NewWithConfig(ctx, s.PoolConfig())
}

var errRefused = &net.OpError{Op: "dial", Net: "sim", Err: errors.New("simpg: connection refused")}

// Dial is the pgconn DialFunc. The session (and its id) is only created by the startup message, so that
// pgconn's out-of-band CancelRequest dials do not perturb connection numbering.
func (s *Server) Dial(ctx context.Context, network, addr string) (net.Conn, error) {
	if s.refuse.Load() {
		return nil, errRefused
	}
	if err := ctx.Err(); err != nil {
		return nil, err
	}
	c := &conn{s: s, stmts: map[string]*prepared{}, portals: map[string]*portal{}}
	c.cond = sync.NewCond(&c.mu)
	return c, nil
}

// Refuse makes every later Write and Dial fail until Refuse(false).
func (s *Server) Refuse(on bool) { s.refuse.Store(on) }

// DropAll closes every connection now (process death). Open transactions are rolled back ("connloss").
func (s *Server) DropAll() {
	s.mu.Lock()
	conns := append([]*conn{}, s.conns...)
	for _, c := range conns {
		s.dropLocked(c, 0)
	}
	evs := s.takeEvents()
	s.mu.Unlock()
	s.fire(evs)
}

// dropLocked ends the server side of a session: roll back, unregister, make the client's reads fail.
func (s *Server) dropLocked(c *conn, seq int) {
	if c.tx != nil {
		s.endTx(c, "connloss", seq)
	}
	c.failed = false // (c.copy belongs to the writer goroutine and is left alone: a dead session processes nothing)
	for i, o := range s.conns {
		if o == c {
			s.conns = append(s.conns[:i:i], s.conns[i+1:]...)
			break
		}
	}
	c.dead = true
	c.mu.Lock()
	c.eof = true
	c.cond.Broadcast()
	c.mu.Unlock()
}

func (s *Server) takeEvents() []CommitEvent {
	evs := s.pending
	s.pending = nil
	return evs
}

func (s *Server) fire(evs []CommitEvent) {
	if s.OnCommit == nil {
		return
	}
	for _, e := range evs {
		s.OnCommit(e)
	}
}

func (s *Server) flag(name string) { s.Flags[name] = true }

func (s *Server) noteUnsupported(what string) { s.unsupported = append(s.unsupported, what) }

// now returns the current logical time as microseconds since 2000-01-01 UTC.
func (s *Server) now() int64 {
	if s.Now != nil {
		return s.Now().Sub(time.Date(2000, 1, 1, 0, 0, 0, 0, time.UTC)).Microseconds()
	}
	return s.clock
}

// ---- catalog helpers ----

func (s *Server) lookupTable(q qname) *table { return s.tables[q.key()] }

func (s *Server) sortedTableKeys() []string {
	keys := make([]string, 0, len(s.tables))
	for k := range s.tables {
		keys = append(keys, k)
	}
	sort.Strings(keys)
	return keys
}

// findIndex looks an index up by name within a schema (index names share the schema's relation namespace).
func (s *Server) findIndex(schema, name string) (*table, int) {
	if schema == "" {
		schema = "public"
	}
	for _, k := range s.sortedTableKeys() {
		t := s.tables[k]
		if t.schema != schema {
			continue
		}
		for i, ix := range t.indexes {
			if ix.name == name {
				return t, i
			}
		}
	}
	return nil, -1
}

// allRows visits every stored row of t: committed ones and the uncommitted inserts of every open transaction.
func (s *Server) allRows(t *table, f func(*row)) {
	for _, r := range t.rows {
		f(r)
	}
	for _, c := range s.conns {
		if c.tx != nil {
			for _, r := range c.tx.inserted[t] {
				f(r)
			}
		}
	}
}

// visible returns the rows of t that a statement of tx sees, ordered by row id. The result must not be modified.
func (s *Server) visible(tx *txn, t *table) []*row {
	if tx == nil {
		return t.rows
	}
	del, ins := tx.deleted[t], tx.inserted[t]
	if len(del) == 0 && len(ins) == 0 {
		return t.rows
	}
	out := make([]*row, 0, len(t.rows)+len(ins))
	j := 0
	for _, r := range t.rows {
		for j < len(ins) && ins[j].id < r.id {
			out = append(out, ins[j])
			j++
		}
		if _, gone := del[r.id]; !gone {
			out = append(out, r)
		}
	}
	return append(out, ins[j:]...)
}

func (s *Server) exportRow(t *table, r *row) Row {
	out := Row{ID: r.id, Vals: make(map[string]any, len(t.cols))}
	for i, c := range t.cols {
		if i < len(r.vals) {
			out.Vals[c.name] = cloneVal(r.vals[i])
		}
	}
	return out
}

// ---- transactions ----

// endTx finishes c's transaction. kind is "commit", "autocommit", "rollback" or "connloss".
func (s *Server) endTx(c *conn, kind string, seq int) {
	tx := c.tx
	if tx == nil {
		return
	}
	c.tx, c.failed = nil, false
	ev := CommitEvent{Conn: c.id, Seq: seq, Kind: kind}
	for _, op := range tx.ops {
		ch := Change{Table: op.t.key(), Op: "delete", Row: s.exportRow(op.t, op.r)}
		if op.insert {
			ch.Op = "insert"
		}
		ev.Changes = append(ev.Changes, ch)
	}
	if kind == "commit" || kind == "autocommit" {
		for t, del := range tx.deleted {
			if len(del) == 0 || s.tables[t.key()] != t {
				continue
			}
			kept := make([]*row, 0, len(t.rows))
			for _, r := range t.rows {
				if _, gone := del[r.id]; !gone {
					kept = append(kept, r)
				}
			}
			t.rows = kept
		}
		for t, ins := range tx.inserted {
			if len(ins) == 0 || s.tables[t.key()] != t {
				continue
			}
			if n := len(t.rows); n == 0 || t.rows[n-1].id < ins[0].id {
				t.rows = append(t.rows[:n:n], ins...)
			} else {
				merged := append(append(make([]*row, 0, n+len(ins)), t.rows...), ins...)
				sort.SliceStable(merged, func(i, j int) bool { return merged[i].id < merged[j].id })
				t.rows = merged
			}
		}
		for _, n := range tx.notes {
			s.notifications = append(s.notifications, n)
		}
	} else {
		for i := len(tx.undo) - 1; i >= 0; i-- {
			tx.undo[i]()
		}
	}
	tx.ended.Store(true)
	if !tx.explicit && len(ev.Changes) == 0 && kind != "connloss" {
		return // an implicit transaction that changed nothing is not reported
	}
	if kind == "commit" || kind == "autocommit" {
		s.stats.Commits++
	} else {
		s.stats.Rollbacks++
	}
	s.pending = append(s.pending, ev)
}

// otherOpenTxs lists the open transactions of other sessions, in connection order.
func (s *Server) otherOpenTxs(tx *txn) []*txn {
	var out []*txn
	for _, c := range s.conns {
		if c.tx != nil && c.tx != tx {
			out = append(out, c.tx)
		}
	}
	return out
}

// ---- snapshot ----

// Snapshot is a deep copy of the committed state and the schema. It is independent of the Server it came from.
type Snapshot struct {
	schemas   map[string]bool
	tables    map[string]*table
	views     map[string]string
	nextRowID int64
	clock     int64
}

func copyTables(in map[string]*table) map[string]*table {
	out := make(map[string]*table, len(in))
	for k, t := range in {
		nt := &table{schema: t.schema, name: t.name, cols: append([]*column{}, t.cols...)}
		nt.rows = make([]*row, len(t.rows))
		for i, r := range t.rows {
			nt.rows[i] = &row{id: r.id, vals: append([]any{}, r.vals...)}
		}
		for _, ix := range t.indexes {
			cp := *ix
			nt.indexes = append(nt.indexes, &cp)
		}
		out[k] = nt
	}
	return out
}

func copyMap[K comparable, V any](in map[K]V) map[K]V {
	out := make(map[K]V, len(in))
	for k, v := range in {
		out[k] = v
	}
	return out
}

// Snapshot copies the committed rows and the catalog. Call it while no transaction is open: uncommitted DDL
// is part of the catalog and would be captured.
func (s *Server) Snapshot() *Snapshot {
	s.mu.Lock()
	defer s.mu.Unlock()
	if len(s.openTxsLocked()) > 0 {
		s.flag("snapshot-with-open-tx")
	}
	return &Snapshot{copyMap(s.schemas), copyTables(s.tables), copyMap(s.views), s.nextRowID, s.clock}
}

// Restore replaces the committed state and the catalog by a copy of snap (which may come from another Server).
// Overlays of open transactions are discarded.
func (s *Server) Restore(snap *Snapshot) {
	s.mu.Lock()
	defer s.mu.Unlock()
	for _, c := range s.conns {
		if c.tx != nil {
			s.flag("restore-with-open-tx")
			nt := newTxn(c, c.tx.explicit).begin(c.tx.start)
			c.tx.ended.Store(true)
			c.tx = nt
		}
	}
	s.schemas, s.tables, s.views = copyMap(snap.schemas), copyTables(snap.tables), copyMap(snap.views)
	s.nextRowID, s.clock = snap.nextRowID, snap.clock // exact, so that runs started from a snapshot are reproducible
}

func (s *Server) openTxsLocked() []int {
	var out []int
	for _, c := range s.conns {
		if c.tx != nil && c.tx.explicit {
			out = append(out, c.id)
		}
	}
	return out
}
