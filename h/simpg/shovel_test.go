package simpg

import (
	"bytes"
	"database/sql/driver"
	"encoding/json"
	"errors"
	"math/big"
	"os"
	"reflect"
	"strings"
	"testing"
	"time"

	"github.com/holiman/uint256"
	"github.com/indexsupply/shovel/eth"
	"github.com/indexsupply/shovel/shovel"
	"github.com/indexsupply/shovel/shovel/config"
	"github.com/indexsupply/shovel/wpg"
	"github.com/jackc/pgx/v5"
	"github.com/jackc/pgx/v5/pgconn"
	"github.com/jackc/pgx/v5/pgxpool"
)

func loadConfig(t testing.TB, files ...string) config.Root {
	t.Helper()
	var conf config.Root
	for _, f := range files {
		b, err := os.ReadFile("/repo/shovel/testdata/" + f)
		if err != nil {
			t.Fatal(err)
		}
		var igs []config.Integration
		if err := json.Unmarshal(b, &igs); err != nil {
			t.Fatal(err)
		}
		conf.Integrations = append(conf.Integrations, igs...)
	}
	if err := config.ValidateFix(&conf); err != nil {
		t.Fatal(err)
	}
	return conf
}

// migrate replays the start-up path of /repo/cmd/shovel/main.go.
func migrate(t testing.TB, p *pgxpool.Pool, conf config.Root) {
	t.Helper()
	dbtx, err := p.Begin(bg)
	if err != nil {
		t.Fatal(err)
	}
	defer dbtx.Rollback(bg)
	if _, err = dbtx.Exec(bg, "select pg_advisory_xact_lock($1)", wpg.LockHash("main.migrate")); err != nil {
		t.Fatal(err)
	}
	if _, err = dbtx.Exec(bg, shovel.Schema); err != nil {
		t.Fatal(err)
	}
	if err := config.Migrate(bg, dbtx, conf); err != nil {
		t.Fatal(err)
	}
	if err := dbtx.Commit(bg); err != nil {
		t.Fatal(err)
	}
}

func colNames(cols []Column) string {
	var out []string
	for _, c := range cols {
		out = append(out, c.Name+":"+c.Type)
	}
	return strings.Join(out, " ")
}

func TestStartupPath(t *testing.T) {
	s, p := newPool(t)
	conf := loadConfig(t, "erc721.json", "filter-ref.json")
	if len(conf.Integrations) < 2 {
		t.Fatal("want at least two integrations")
	}
	var before *Snapshot
	for round := 0; round < 2; round++ {
		migrate(t, p, conf)
		noUnsupported(t, s)
		want := []string{"public.erc721_test", "public.tx", "public.tx_w_block", "shovel.ig_updates", "shovel.integrations",
			"shovel.sources", "shovel.task_updates"}
		if got := s.Tables(); !reflect.DeepEqual(got, want) {
			t.Fatalf("tables: %v", got)
		}
		if got := colNames(s.Columns("shovel.task_updates")); got != "num:numeric hash:bytea insert_at:timestamp with time zone "+
			"src_hash:bytea src_num:numeric nblocks:numeric nrows:numeric latency:interval src_name:text stop:numeric "+
			"chain_id:integer ig_name:text" {
			t.Fatalf("task_updates columns: %s", got)
		}
		ix := s.Indexes("shovel.task_updates")
		if len(ix) != 1 || ix[0].Name != "task_src_name_num_idx" || !ix[0].Unique ||
			!reflect.DeepEqual(ix[0].Cols, []string{"ig_name", "src_name", "num"}) || !reflect.DeepEqual(ix[0].Desc, []bool{false, false, true}) {
			t.Fatalf("task_updates indexes: %+v", ix)
		}
		if got := colNames(s.Columns("erc721_test")); got != "chain_id:numeric block_num:numeric tx_hash:bytea contract:bytea "+
			"from:bytea t:bytea token:numeric ig_name:text src_name:text tx_idx:integer log_idx:integer" {
			t.Fatalf("erc721_test columns: %s", got)
		}
		if ix := s.Indexes("public.erc721_test"); len(ix) != 1 || ix[0].Name != "u_erc721_test" || !ix[0].Unique {
			t.Fatalf("erc721_test indexes: %+v", ix)
		}
		if v := s.Views(); len(v) != 2 || !strings.HasPrefix(v["shovel.latest"], "with abs_latest as") {
			t.Fatalf("views: %v", v)
		}
		if round == 0 {
			before = s.Snapshot()
		} else if !reflect.DeepEqual(before.tables, s.Snapshot().tables) {
			t.Fatal("second migration changed the schema")
		}
	}
	if l := s.AdvisoryLocks(); len(l) != 2 || l[0].Key != wpg.LockHash("main.migrate") {
		t.Fatalf("advisory locks: %v", l)
	}
	if len(s.OpenTxs()) != 0 {
		t.Fatal("open tx left")
	}

	// wpg.Diff sees added columns through information_schema.columns; Migrate then issues "alter table add column"
	conf.Integrations[0].Table.Columns = append(conf.Integrations[0].Table.Columns, wpg.Column{Name: "extra", Type: "int8"})
	diff, err := wpg.Diff(bg, p, "erc721_test", conf.Integrations[0].Table.Columns)
	if err != nil || len(diff.Add) != 1 || diff.Add[0].Name != "extra" || len(diff.Remove) != 0 {
		t.Fatalf("diff %+v %v", diff, err)
	}
	migrate(t, p, conf)
	cols := s.Columns("erc721_test")
	if last := cols[len(cols)-1]; last.Name != "extra" || last.Type != "bigint" || last.OID != 20 {
		t.Fatalf("added column: %+v", last)
	}
	noUnsupported(t, s)
}

// TestStartupRollback checks that DDL is transactional: a failed migration leaves nothing behind.
func TestStartupRollback(t *testing.T) {
	s, p := newPool(t)
	tx, err := p.Begin(bg)
	if err != nil {
		t.Fatal(err)
	}
	mustExec(t, tx, shovel.Schema)
	mustExec(t, tx, "create table x (a int)")
	mustExec(t, tx, "insert into x (a) values (1)")
	if len(s.Tables()) != 5 {
		t.Fatalf("tables inside tx: %v", s.Tables())
	}
	if err := tx.Rollback(bg); err != nil {
		t.Fatal(err)
	}
	if len(s.Tables()) != 0 || len(s.Views()) != 0 {
		t.Fatalf("tables after rollback: %v %v", s.Tables(), s.Views())
	}
}

func taskUpdatesInsert(t testing.TB, q wpg.Conn, src, ig string, num uint64, hash []byte) error {
	t.Helper()
	const uq = `
		insert into shovel.task_updates (
			chain_id,
			src_name,
			ig_name,
			num,
			hash,
			src_num,
			src_hash,
			stop,
			nblocks,
			nrows,
			latency
		)
		values ($1, $2, $3, $4, $5, $6, $7, $8, $9, $10, $11)
	`
	_, err := q.Exec(bg, uq, uint64(1), src, ig, num, hash, num+5, []byte{0xaa}, uint64(0), uint64(1), int64(3), 1500*time.Millisecond)
	return err
}

func latest(t testing.TB, q wpg.Conn, sql, src string, arg any) (uint64, []byte, bool) {
	t.Helper()
	num, hash := uint64(0), []byte{}
	err := q.QueryRow(bg, sql, src, arg).Scan(&num, &hash)
	if errors.Is(err, pgx.ErrNoRows) {
		return 0, nil, false
	}
	if err != nil {
		t.Fatalf("%s: %v", sql, err)
	}
	return num, hash, true
}

const latestSQL = `
		select num, hash
		from shovel.task_updates
		where src_name = $1
		and ig_name = $2
		order by num desc
		limit 1
	`

const latestDepSQL = `
		with latest as (
			select distinct on (ig_name)
			ig_name, num, hash
			from shovel.task_updates
			where src_name = $1
			and ig_name = ANY($2)
			order by ig_name, num desc
		)
		select num, hash
		from latest
		order by num asc
		limit 1;
	`

const taskDeleteSQL = `
		delete from shovel.task_updates
		where src_name = $1
		and ig_name = $2
		and num >= $3
	`

const pruneSQL = `
		delete from shovel.task_updates
		where (src_name, ig_name, num) not in (
			select src_name, ig_name, num
			from (
				select
					src_name,
					ig_name,
					num,
					row_number() over(partition by src_name, ig_name order by num desc) as rn
				from shovel.task_updates
			) as s
			where rn <= $1
		)
	`

func TestTaskStatements(t *testing.T) {
	s, p := newPool(t)
	conf := loadConfig(t, "erc721.json", "filter-ref.json")
	migrate(t, p, conf)

	mustExec(t, p, "set application_name = 'shovel-task-main-erc721-v1'")
	if _, _, ok := latest(t, p, latestSQL, "main", "erc721"); ok {
		t.Fatal("latest on empty table")
	}
	for _, ig := range []string{"erc721", "tx"} {
		for n := uint64(1); n <= 12; n++ {
			if ig == "tx" && n > 9 {
				break
			}
			if err := taskUpdatesInsert(t, p, "main", ig, n, []byte{byte(n), 0xfe}); err != nil {
				t.Fatal(err)
			}
		}
	}
	if err := taskUpdatesInsert(t, p, "other", "erc721", 100, []byte{100}); err != nil {
		t.Fatal(err)
	}
	// duplicate (ig_name, src_name, num)
	var pgErr *pgconn.PgError
	if err := taskUpdatesInsert(t, p, "main", "erc721", 12, []byte{1}); !errors.As(err, &pgErr) || pgErr.Code != "23505" ||
		!strings.Contains(pgErr.Message, "task_src_name_num_idx") {
		t.Fatalf("want 23505, got %v", err)
	}
	rows := s.Dump("shovel.task_updates")
	if len(rows) != 22 {
		t.Fatalf("rows: %d", len(rows))
	}
	r := rows[11].Vals
	if r["num"].(*big.Int).Int64() != 12 || !bytes.Equal(r["hash"].([]byte), []byte{12, 0xfe}) || r["chain_id"] != int64(1) ||
		r["src_name"] != "main" || r["ig_name"] != "erc721" || r["src_num"].(*big.Int).Int64() != 17 || r["nrows"].(*big.Int).Int64() != 3 ||
		r["stop"].(*big.Int).Sign() != 0 {
		t.Fatalf("row: %#v", r)
	}
	// interval is stored in its binary wire form: 1.5s in microseconds, 0 days, 0 months
	if got := r["latency"].([]byte); !bytes.Equal(got, []byte{0, 0, 0, 0, 0, 0x16, 0xe3, 0x60, 0, 0, 0, 0, 0, 0, 0, 0}) {
		t.Fatalf("latency: %x", got)
	}
	if got, ok := r["insert_at"].([]byte); !ok || len(got) != 8 {
		t.Fatalf("insert_at default now(): %#v", r["insert_at"])
	}

	if n, h, ok := latest(t, p, latestSQL, "main", "erc721"); !ok || n != 12 || !bytes.Equal(h, []byte{12, 0xfe}) {
		t.Fatalf("latest: %d %x %v", n, h, ok)
	}
	if n, _, ok := latest(t, p, latestDepSQL, "main", []string{"erc721", "tx"}); !ok || n != 9 {
		t.Fatalf("latestDependency: %d %v", n, ok)
	}
	if n, _, ok := latest(t, p, latestDepSQL, "main", []string{"erc721"}); !ok || n != 12 {
		t.Fatalf("latestDependency single: %d %v", n, ok)
	}
	if _, _, ok := latest(t, p, latestDepSQL, "main", []string{"nope"}); ok {
		t.Fatal("latestDependency of unknown integration")
	}
	if _, _, ok := latest(t, p, latestDepSQL, "main", []string{}); ok {
		t.Fatal("latestDependency of empty list")
	}

	// Task.Delete + dig.Integration.Delete in one transaction
	tx, err := p.Begin(bg)
	if err != nil {
		t.Fatal(err)
	}
	tag, err := tx.Exec(bg, taskDeleteSQL, "main", "erc721", uint64(11))
	if err != nil || tag.RowsAffected() != 2 {
		t.Fatalf("task delete: %v %v", tag, err)
	}
	mustExec(t, tx, "insert into erc721_test (src_name, ig_name, block_num, tx_idx, log_idx) values ($1, $2, $3, 0, 0)", "main", "erc721", uint64(11))
	mustExec(t, tx, "insert into erc721_test (src_name, ig_name, block_num, tx_idx, log_idx) values ($1, $2, $3, 0, 0)", "main", "erc721", uint64(10))
	tag, err = tx.Exec(bg, `
		delete from erc721_test
		where src_name = $1
		and ig_name = $2
		and block_num >= $3
	`, "main", "erc721", uint64(11))
	if err != nil || tag.RowsAffected() != 1 {
		t.Fatalf("integration delete: %v %v", tag, err)
	}
	if err := tx.Commit(bg); err != nil {
		t.Fatal(err)
	}
	if n, _, _ := latest(t, p, latestSQL, "main", "erc721"); n != 10 {
		t.Fatalf("latest after delete: %d", n)
	}
	if got := s.Dump("erc721_test"); len(got) != 1 || got[0].Vals["block_num"].(*big.Int).Int64() != 10 {
		t.Fatalf("erc721_test: %v", got)
	}

	// PruneTask keeps the newest n per (src_name, ig_name)
	tag, err = p.Exec(bg, pruneSQL, 3)
	if err != nil {
		t.Fatal(err)
	}
	if tag.RowsAffected() != 7+6+0 {
		t.Fatalf("prune: %v", tag)
	}
	var left []string
	for _, r := range s.Dump("shovel.task_updates") {
		left = append(left, r.Vals["src_name"].(string)+"/"+r.Vals["ig_name"].(string)+"/"+r.Vals["num"].(*big.Int).String())
	}
	if got := strings.Join(left, " "); got != "main/erc721/8 main/erc721/9 main/erc721/10 main/tx/7 main/tx/8 main/tx/9 other/erc721/100" {
		t.Fatalf("after prune: %s", got)
	}
	if err := shovel.PruneTask(bg, p, 1); err != nil {
		t.Fatal(err)
	}
	if got := len(s.Dump("shovel.task_updates")); got != 3 {
		t.Fatalf("after second prune: %d", got)
	}

	// filter_ref lookup: select true from T where c = $1 with a []byte argument
	mustExec(t, p, "insert into tx (tx_hash, src_name, ig_name, block_num, tx_idx) values ($1, 'main', 'tx', 1, 0)", []byte{0x71, 0x3d})
	var found bool
	if err := p.QueryRow(bg, "select true from tx where tx_hash = $1", []byte{0x71, 0x3d}).Scan(&found); err != nil || !found {
		t.Fatalf("filter ref hit: %v %v", found, err)
	}
	if err := p.QueryRow(bg, "select true from tx where tx_hash = $1", []byte{0x71}).Scan(&found); !errors.Is(err, pgx.ErrNoRows) {
		t.Fatalf("filter ref miss: %v", err)
	}

	// pg_notify: delivered at commit, dropped on rollback, duplicates within a transaction collapse
	mustExec(t, p, "select pg_notify('main-erc721', $1)", "1,0xab")
	tx, _ = p.Begin(bg)
	mustExec(t, tx, "select pg_notify('main-erc721', $1)", "2")
	mustExec(t, tx, "select pg_notify('main-erc721', $1)", "2")
	if len(s.Notifications()) != 1 {
		t.Fatal("notification visible before commit")
	}
	tx.Commit(bg)
	tx, _ = p.Begin(bg)
	mustExec(t, tx, "select pg_notify('main-erc721', $1)", "3")
	tx.Rollback(bg)
	n := s.Notifications()
	if len(n) != 2 || n[0].Channel != "main-erc721" || n[0].Payload != "1,0xab" || n[1].Payload != "2" {
		t.Fatalf("notifications: %+v", n)
	}

	// dashboard inserts and the config readers
	mustExec(t, p, "insert into shovel.integrations(name, conf) values ($1, $2)", "erc721", []byte(`{"name":"erc721","enabled":true}`))
	mustExec(t, p, "insert into shovel.sources(chain_id, name, url) values ($1, $2, $3)", 5, "goerli", "http://x")
	igs, err := config.Integrations(bg, p)
	if err != nil || len(igs) != 1 || igs[0].Name != "erc721" || !igs[0].Enabled {
		t.Fatalf("config.Integrations: %+v %v", igs, err)
	}
	srcs, err := config.Sources(bg, p)
	if err != nil || len(srcs) != 1 || srcs[0].Name != "goerli" || srcs[0].ChainID != 5 || srcs[0].URLs[0] != "http://x" {
		t.Fatalf("config.Sources: %+v %v", srcs, err)
	}
	if _, err := p.Exec(bg, "insert into shovel.sources(chain_id, name, url) values ($1, $2, $3)", 6, "goerli", "http://y"); !errors.As(err, &pgErr) || pgErr.Code != "23505" {
		t.Fatalf("duplicate source: %v", err)
	}
	noUnsupported(t, s)

	log := strings.Join(s.SQLLog(), "\n")
	for _, want := range []string{"select pg_advisory_xact_lock($1)", "create schema if not exists shovel", "set application_name",
		"row_number() over(partition by src_name, ig_name order by num desc)", "select true from tx where tx_hash = $1"} {
		if !strings.Contains(log, want) {
			t.Errorf("SQL log lacks %q", want)
		}
	}
}

type negValuer struct{ s string }

func (n negValuer) Value() (driver.Value, error) { return n.s, nil }

type namedU64 uint64

func TestCopyFromTypes(t *testing.T) {
	s, p := newPool(t)
	mustExec(t, p, `create table c (n numeric, n2 numeric, b bytea, s text, ok bool, i2 int2, i4 int, i8 int8, u numeric, eu numeric,
		eb int, "from" bytea, eui int, named numeric)`)
	mustExec(t, p, "create unique index u_c on c (i4, n)")
	max := new(uint256.Int).SetAllOne()
	rows := [][]any{
		{max, negValuer{"-5"}, []byte{0, 1, 2}, "héllo", true, 32767, 1 << 30, int64(-1 << 62), uint64(1<<64 - 1), eth.Uint64(77),
			eth.Byte(2), eth.Bytes{9}, eth.Uint64(3), namedU64(1 << 63)},
		{uint256.NewInt(0), negValuer{"-340282366920938463463374607431768211456"}, []byte{}, "", false, -32768, -1 << 31, int64(0), uint64(0),
			eth.Uint64(0), eth.Byte(0), eth.Bytes{}, eth.Uint64(0), namedU64(0)},
		{nil, nil, nil, nil, nil, nil, nil, nil, nil, nil, nil, nil, nil, nil},
	}
	cols := []string{"n", "n2", "b", "s", "ok", "i2", "i4", "i8", "u", "eu", "eb", "from", "eui", "named"}
	tx, err := p.Begin(bg)
	if err != nil {
		t.Fatal(err)
	}
	defer tx.Rollback(bg)
	n, err := tx.CopyFrom(bg, pgx.Identifier{"c"}, cols, pgx.CopyFromRows(rows))
	if err != nil || n != 3 {
		t.Fatalf("copy: %d %v", n, err)
	}
	if len(s.Dump("c")) != 0 || len(s.DumpTx(s.OpenTxs()[0], "c")) != 3 {
		t.Fatal("copy visible outside its transaction")
	}
	if err := tx.Commit(bg); err != nil {
		t.Fatal(err)
	}
	big := func(s string) *big.Int { v, _ := new(big.Int).SetString(s, 10); return v }
	want := []map[string]any{
		{"n": big("115792089237316195423570985008687907853269984665640564039457584007913129639935"), "n2": big("-5"),
			"b": []byte{0, 1, 2}, "s": "héllo", "ok": true, "i2": int64(32767), "i4": int64(1 << 30), "i8": int64(-1 << 62),
			"u": big("18446744073709551615"), "eu": big("77"), "eb": int64(2), "from": []byte{9}, "eui": int64(3),
			"named": big("9223372036854775808")},
		{"n": big("0"), "n2": big("-340282366920938463463374607431768211456"), "b": []byte{}, "s": "", "ok": false,
			"i2": int64(-32768), "i4": int64(-1 << 31), "i8": int64(0), "u": big("0"), "eu": big("0"), "eb": int64(0),
			"from": []byte{}, "eui": int64(0), "named": big("0")},
		{"n": nil, "n2": nil, "b": nil, "s": nil, "ok": nil, "i2": nil, "i4": nil, "i8": nil, "u": nil, "eu": nil, "eb": nil,
			"from": nil, "eui": nil, "named": nil},
	}
	got := s.Dump("c")
	for i := range want {
		if !reflect.DeepEqual(got[i].Vals, want[i]) {
			for k, v := range want[i] {
				if !reflect.DeepEqual(got[i].Vals[k], v) {
					t.Errorf("row %d column %s: got %#v want %#v", i, k, got[i].Vals[k], v)
				}
			}
		}
		if got[i].ID != int64(i+1) {
			t.Errorf("row id %d", got[i].ID)
		}
	}
	// values read back through pgx are exact as well
	var n1, n2 pgtypeNumericText
	if err := p.QueryRow(bg, "select n::text, n2::text from c where i2 = $1", 32767).Scan(&n1, &n2); err != nil ||
		n1 != "115792089237316195423570985008687907853269984665640564039457584007913129639935" || n2 != "-5" {
		t.Fatalf("read back: %v %v %v", n1, n2, err)
	}
	var u256 uint256.Int
	var bi pgtypeBig
	if err := p.QueryRow(bg, "select n, n2 from c where i2 = $1", 32767).Scan(&u256, &bi); err != nil || !u256.Eq(max) {
		t.Fatalf("read back numeric: %v %v", u256.Dec(), err)
	}

	// second COPY of the same rows: unique violation on (i4, n), reported at CopyDone, transaction aborted
	tx, err = p.Begin(bg)
	if err != nil {
		t.Fatal(err)
	}
	mustExec(t, tx, "insert into c (s) values ('in tx')")
	_, err = tx.CopyFrom(bg, pgx.Identifier{"c"}, cols, pgx.CopyFromRows(rows))
	var pgErr *pgconn.PgError
	if !errors.As(err, &pgErr) || pgErr.Code != "23505" || !strings.Contains(pgErr.Message, `"u_c"`) {
		t.Fatalf("second copy: %v", err)
	}
	if st := s.Stats(); st.Copies != 1 || st.RowsCopied != 3 || st.Errors["23505"] != 1 {
		t.Fatalf("stats: %+v", st)
	}
	if _, err = tx.Exec(bg, "insert into c (s) values ('after')"); !errors.As(err, &pgErr) || pgErr.Code != "25P02" {
		t.Fatalf("statement in aborted tx: %v", err)
	}
	if _, err = tx.Exec(bg, "select true from c where s = $1", "x"); !errors.As(err, &pgErr) || pgErr.Code != "25P02" {
		t.Fatalf("prepared statement in aborted tx: %v", err)
	}
	if err = tx.Commit(bg); !errors.Is(err, pgx.ErrTxCommitRollback) {
		t.Fatalf("commit of aborted tx: %v", err)
	}
	if len(s.Dump("c")) != 3 {
		t.Fatalf("rows after aborted tx: %d", len(s.Dump("c")))
	}
	// the NULL row does not conflict with itself: copying only it succeeds
	if _, err := p.CopyFrom(bg, pgx.Identifier{"c"}, cols, pgx.CopyFromRows(rows[2:])); err != nil {
		t.Fatal(err)
	}
	// out-of-range smallint is refused by pgx on the client side, like against a real server
	if _, err := p.CopyFrom(bg, pgx.Identifier{"c"}, []string{"i2"}, pgx.CopyFromRows([][]any{{40000}})); err == nil {
		t.Fatal("int2 overflow accepted")
	}
	// invalid UTF-8 / NUL in text is a server-side error 22021, as in Postgres
	if _, err := p.CopyFrom(bg, pgx.Identifier{"c"}, []string{"s"}, pgx.CopyFromRows([][]any{{"a\x00b"}})); !errors.As(err, &pgErr) || pgErr.Code != "22021" {
		t.Fatalf("NUL in text: %v", err)
	}
	if _, err := p.CopyFrom(bg, pgx.Identifier{"c"}, []string{"s"}, pgx.CopyFromRows([][]any{{string([]byte{0xff, 0xfe})}})); !errors.As(err, &pgErr) || pgErr.Code != "22021" {
		t.Fatalf("invalid utf8 in text: %v", err)
	}
	// COPY into a missing table / column fails while describing
	if _, err := p.CopyFrom(bg, pgx.Identifier{"nope"}, []string{"s"}, pgx.CopyFromRows([][]any{{"a"}})); !errors.As(err, &pgErr) || pgErr.Code != "42P01" {
		t.Fatalf("copy into missing table: %v", err)
	}
	if _, err := p.CopyFrom(bg, pgx.Identifier{"c"}, []string{"zz"}, pgx.CopyFromRows([][]any{{"a"}})); !errors.As(err, &pgErr) || pgErr.Code != "42703" {
		t.Fatalf("copy into missing column: %v", err)
	}
	noUnsupported(t, s)
}

type pgtypeNumericText = string

// pgtypeBig scans a numeric through its text form.
type pgtypeBig struct{ v *big.Int }

func (b *pgtypeBig) Scan(src any) error {
	s, ok := src.(string)
	if !ok {
		return errors.New("want string")
	}
	b.v, _ = new(big.Int).SetString(s, 10)
	return nil
}
