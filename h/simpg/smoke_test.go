package simpg

import (
	"context"
	"testing"
	"time"

	"github.com/jackc/pgx/v5"
	"github.com/jackc/pgx/v5/pgconn"
	"github.com/jackc/pgx/v5/pgxpool"
)

var bg = context.Background()

// newPool returns a fresh server and a pool on it; both are cleaned up with the test.
func newPool(t testing.TB) (*Server, *pgxpool.Pool) {
	t.Helper()
	s := NewServer()
	p, err := s.NewPool(bg)
	if err != nil {
		t.Fatal(err)
	}
	t.Cleanup(func() { closePool(t, p) })
	return s, p
}

// closePool fails the test instead of hanging when a transaction was left open.
func closePool(t testing.TB, p *pgxpool.Pool) {
	done := make(chan struct{})
	go func() { p.Close(); close(done) }()
	select {
	case <-done:
	case <-time.After(10 * time.Second):
		t.Errorf("pool.Close hangs (a connection is still acquired)")
	}
}

func mustExec(t testing.TB, q interface {
	Exec(context.Context, string, ...any) (pgconn.CommandTag, error)
}, sql string, args ...any) {
	t.Helper()
	if _, err := q.Exec(bg, sql, args...); err != nil {
		t.Fatalf("%s: %v", sql, err)
	}
}

func noUnsupported(t testing.TB, s *Server) {
	t.Helper()
	if u := s.Unsupported(); len(u) > 0 {
		t.Errorf("unsupported: %q", u)
	}
}

func TestSmoke(t *testing.T) {
	s, p := newPool(t)
	mustExec(t, p, "create table t (a int, b text, c numeric, d bytea)")
	mustExec(t, p, "create unique index u_t on t (a)")
	mustExec(t, p, "insert into t (a, b, c, d) values ($1, $2, $3, $4)", 1, "x", uint64(1<<63), []byte{1, 2})
	tx, err := p.Begin(bg)
	if err != nil {
		t.Fatal(err)
	}
	mustExec(t, tx, "insert into t (a, b) values ($1, $2)", 2, "y")
	n, err := tx.CopyFrom(bg, pgx.Identifier{"t"}, []string{"a", "b", "c", "d"}, pgx.CopyFromRows([][]any{
		{3, "z", uint64(7), []byte("q")},
		{4, nil, nil, nil},
	}))
	if err != nil || n != 2 {
		t.Fatalf("copy: %d %v", n, err)
	}
	if got := len(s.Dump("t")); got != 1 {
		t.Fatalf("committed rows before commit: %d", got)
	}
	if err := tx.Commit(bg); err != nil {
		t.Fatal(err)
	}
	rows, err := p.Query(bg, "select a, b, c, d from t where a >= $1 order by a desc", 2)
	if err != nil {
		t.Fatal(err)
	}
	var as []int
	for rows.Next() {
		var a int
		var b *string
		var c *uint64
		var d []byte
		if err := rows.Scan(&a, &b, &c, &d); err != nil {
			t.Fatal(err)
		}
		as = append(as, a)
	}
	if rows.Err() != nil || len(as) != 3 || as[0] != 4 || as[2] != 2 {
		t.Fatalf("rows %v err %v", as, rows.Err())
	}
	noUnsupported(t, s)
}
