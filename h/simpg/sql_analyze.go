package simpg

import (
	"fmt"
	"math"
	"math/big"
	"reflect"
)

// colDesc describes one column of a relation (a table, a sub-select or a result).
type colDesc struct {
	qual, name string
	typ        *Type
}

// stmtInfo is what Parse/Describe need to know about a statement.
type stmtInfo struct {
	params      []*Type
	cols        []colDesc
	returnsRows bool
}

type scope struct {
	cols  []colDesc
	outer *scope
	sel   *selectStmt
}

// analyzer resolves names against the catalog, infers parameter types from context and computes result
// column types. It is run at Parse time and again before every execution (the catalog may have changed).
type analyzer struct {
	s      *Server
	params []*Type
	used   map[int]bool // parameter numbers that occur in the statement
	ctes   []map[string][]colDesc
}

var infoSchemaColumns = []colDesc{
	{"columns", "table_catalog", tText}, {"columns", "table_schema", tText}, {"columns", "table_name", tText},
	{"columns", "column_name", tText}, {"columns", "ordinal_position", tInt4}, {"columns", "column_default", tText},
	{"columns", "is_nullable", tText}, {"columns", "data_type", tText}, {"columns", "udt_name", tText},
}

func (s *Server) analyze(st any, given []uint32) (*stmtInfo, *pgErr) {
	a := &analyzer{s: s}
	for i, oid := range given {
		if oid != 0 {
			t := typesByOID[oid]
			if t == nil {
				t = tText
			}
			a.setParam(i+1, t)
		}
	}
	info := &stmtInfo{}
	var err *pgErr
	switch st := st.(type) {
	case *selectStmt:
		info.returnsRows = true
		info.cols, err = a.selectCols(st, nil)
	case *insertStmt:
		err = a.insert(st)
	case *deleteStmt:
		t := s.lookupTable(st.table)
		if t == nil {
			return nil, errf("42P01", "relation %q does not exist", st.table.String())
		}
		sc := &scope{cols: tableCols(t, st.alias)}
		if st.where != nil {
			err = a.wantBool(st.where, sc)
		}
	case *copyStmt:
		_, _, err = s.copyTarget(st)
	case *createTableStmt:
		for _, c := range st.cols {
			if c.def != nil && err == nil {
				_, err = a.expr(c.def, nil)
			}
		}
	case *alterTableStmt:
		for _, one := range append([]*alterTableStmt{st}, st.more...) {
			if one.add != nil && one.add.def != nil && err == nil {
				_, err = a.expr(one.add.def, nil)
			}
		}
	}
	if err != nil {
		return nil, err
	}
	for i, t := range a.params {
		if t == nil {
			if !a.used[i+1] { // e.g. $1 and $3 occur but $2 does not
				return nil, errf("42P18", "could not determine data type of parameter $%d", i+1)
			}
			a.params[i] = tText
		}
	}
	info.params = a.params
	return info, nil
}

func tableCols(t *table, alias string) []colDesc {
	q := alias
	if q == "" {
		q = t.name
	}
	out := make([]colDesc, len(t.cols))
	for i, c := range t.cols {
		out[i] = colDesc{q, c.name, c.typ}
	}
	return out
}

func (a *analyzer) setParam(n int, t *Type) {
	if a.used == nil {
		a.used = map[int]bool{}
	}
	a.used[n] = true
	for len(a.params) < n {
		a.params = append(a.params, nil)
	}
	if a.params[n-1] == nil && t != nil {
		a.params[n-1] = t
	}
}

func (a *analyzer) insert(st *insertStmt) *pgErr {
	t := a.s.lookupTable(st.table)
	if t == nil {
		return errf("42P01", "relation %q does not exist", st.table.String())
	}
	idx, err := insertColumns(t, st.cols)
	if err != nil {
		return err
	}
	for _, r := range st.rows {
		if len(r) > len(idx) {
			return errf("42601", "INSERT has more expressions than target columns")
		}
		if len(r) < len(idx) && len(st.cols) > 0 {
			return errf("42601", "INSERT has more target columns than expressions")
		}
		for i, e := range r {
			if e == nil {
				continue
			}
			col := t.cols[idx[i]]
			if p, ok := e.(*paramExpr); ok {
				a.setParam(p.n, col.typ)
				continue
			}
			et, err := a.expr(e, nil)
			if err != nil {
				return err
			}
			if et != nil && !assignable(col.typ, et) {
				return errf("42804", "column %q is of type %s but expression is of type %s", col.name, col.typ.Name, et.Name)
			}
		}
	}
	return nil
}

func insertColumns(t *table, names []string) ([]int, *pgErr) {
	if len(names) == 0 {
		idx := make([]int, len(t.cols))
		for i := range idx {
			idx[i] = i
		}
		return idx, nil
	}
	idx := make([]int, len(names))
	seen := map[string]bool{}
	for i, n := range names {
		j := t.colIndex(n)
		if j < 0 {
			return nil, errf("42703", "column %q of relation %q does not exist", n, t.name)
		}
		if seen[n] {
			return nil, errf("42701", "column %q specified more than once", n)
		}
		seen[n] = true
		idx[i] = j
	}
	return idx, nil
}

func category(t *Type) string {
	switch t.kind {
	case kInt2, kInt4, kInt8, kNumeric:
		return "n"
	case kText:
		return "s"
	case kBytea:
		return "b"
	case kBool:
		return "o"
	case kArray:
		return "[" + category(t.elem)
	}
	return t.Name
}

func sameCategory(a, b *Type) bool { return category(a) == category(b) }

func assignable(col, e *Type) bool {
	if sameCategory(col, e) {
		return true
	}
	return false
}

func isNumericKind(t *Type) bool { return t != nil && category(t) == "n" }

// fromCols computes the columns a FROM item offers.
func (a *analyzer) fromCols(fi *fromItem, outer *scope) ([]colDesc, *pgErr) {
	if fi.values != nil {
		n := len(fi.values[0])
		out := make([]colDesc, n)
		for r, row := range fi.values {
			if len(row) != n {
				return nil, errf("42601", "VALUES lists must all be the same length")
			}
			for i, e := range row {
				t, err := a.expr(e, outer)
				if err != nil {
					return nil, err
				}
				if r == 0 || out[i].typ == nil {
					name := fmt.Sprintf("column%d", i+1)
					if i < len(fi.colNames) {
						name = fi.colNames[i]
					}
					out[i] = colDesc{fi.alias, name, t}
				}
			}
		}
		for i := range out {
			if out[i].typ == nil {
				out[i].typ = tText // untyped literals resolve to text
			}
		}
		if len(fi.colNames) > n {
			return nil, errf("42P10", "table %q has %d columns available but %d columns specified", fi.alias, n, len(fi.colNames))
		}
		return out, nil
	}
	if fi.sub != nil {
		cols, err := a.selectCols(fi.sub, outer)
		if err != nil {
			return nil, err
		}
		out := make([]colDesc, len(cols))
		for i, c := range cols {
			out[i] = colDesc{fi.alias, c.name, c.typ}
		}
		return out, nil
	}
	q := fi.alias
	if q == "" {
		q = fi.table.name
	}
	if fi.table.schema == "" {
		for i := len(a.ctes) - 1; i >= 0; i-- {
			if cols, ok := a.ctes[i][fi.table.name]; ok {
				out := make([]colDesc, len(cols))
				for j, c := range cols {
					out[j] = colDesc{q, c.name, c.typ}
				}
				return out, nil
			}
		}
	}
	if fi.table.schema == "information_schema" && fi.table.name == "columns" {
		out := append([]colDesc{}, infoSchemaColumns...)
		for i := range out {
			out[i].qual = q
		}
		return out, nil
	}
	if t := a.s.lookupTable(fi.table); t != nil {
		return tableCols(t, fi.alias), nil
	}
	if _, ok := a.s.views[fi.table.key()]; ok {
		return nil, &pgErr{Code: "0A000", Msg: "selecting from view " + fi.table.String() + " is not supported by simpg", Unsupported: true}
	}
	if fi.table.schema == "information_schema" || fi.table.schema == "pg_catalog" || (len(fi.table.name) > 3 && fi.table.name[:3] == "pg_") {
		return nil, &pgErr{Code: "0A000", Msg: "catalog relation " + fi.table.String() + " is not supported by simpg", Unsupported: true}
	}
	return nil, errf("42P01", "relation %q does not exist", fi.table.String())
}

func (a *analyzer) selectCols(sel *selectStmt, outer *scope) ([]colDesc, *pgErr) {
	if len(sel.with) > 0 {
		m := map[string][]colDesc{}
		a.ctes = append(a.ctes, m)
		defer func() { a.ctes = a.ctes[:len(a.ctes)-1] }()
		for _, c := range sel.with {
			if _, dup := m[c.name]; dup {
				return nil, errf("42712", "WITH query name %q specified more than once", c.name)
			}
			cols, err := a.selectCols(c.sel, outer)
			if err != nil {
				return nil, err
			}
			m[c.name] = cols
		}
	}
	sc := &scope{outer: outer, sel: sel}
	sel.correlated = false
	if sel.from != nil {
		cols, err := a.fromCols(sel.from, outer)
		if err != nil {
			return nil, err
		}
		sc.cols = cols
	}
	if sel.where != nil {
		if hasWindow(sel.where) {
			return nil, errf("42P20", "window functions are not allowed in WHERE")
		}
		if err := a.wantBool(sel.where, sc); err != nil {
			return nil, err
		}
	}
	var out []colDesc
	for _, tg := range sel.targets {
		if tg.star {
			if sel.from == nil {
				return nil, errf("42601", "SELECT * with no tables specified is not valid")
			}
			n := 0
			for _, c := range sc.cols {
				if tg.qual == "" || tg.qual == c.qual {
					out = append(out, colDesc{"", c.name, c.typ})
					n++
				}
			}
			if n == 0 {
				return nil, errf("42P01", "missing FROM-clause entry for table %q", tg.qual)
			}
			continue
		}
		t, err := a.expr(tg.e, sc)
		if err != nil {
			return nil, err
		}
		if t == nil {
			t = tText
			if p, ok := tg.e.(*paramExpr); ok {
				a.setParam(p.n, tText)
			}
		}
		out = append(out, colDesc{"", targetName(tg), t})
	}
	for _, e := range sel.distinctOn {
		if _, err := a.expr(e, sc); err != nil {
			return nil, err
		}
	}
	for i, it := range sel.orderBy {
		if i < len(sel.distinctOn) && len(sel.distinctOn) > 0 && !containsExpr(sel.distinctOn, it.e) {
			return nil, errf("42P10", "SELECT DISTINCT ON expressions must match initial ORDER BY expressions")
		}
		if k, err := orderOutputRef(it.e, out); err != nil {
			return nil, err
		} else if k >= 0 {
			continue
		}
		if _, err := a.expr(it.e, sc); err != nil {
			return nil, err
		}
	}
	for _, e := range []expr{sel.limit, sel.offset} {
		if e == nil {
			continue
		}
		if p, ok := e.(*paramExpr); ok {
			a.setParam(p.n, tInt8)
		}
		t, err := a.expr(e, nil)
		if err != nil {
			return nil, err
		}
		if t != nil && !isNumericKind(t) {
			return nil, errf("42804", "argument of LIMIT must be type bigint, not type %s", t.Name)
		}
	}
	return out, nil
}

func containsExpr(list []expr, e expr) bool {
	for _, x := range list {
		if reflect.DeepEqual(x, e) {
			return true
		}
	}
	return false
}

// orderOutputRef implements the SQL92 ORDER BY rules: a bare name that matches an output column name, or an
// integer constant, refers to the output column. Returns -1 when the item is an ordinary expression.
func orderOutputRef(e expr, out []colDesc) (int, *pgErr) {
	switch x := e.(type) {
	case *colExpr:
		if x.qual != "" {
			return -1, nil
		}
		found := -1
		for i, c := range out {
			if c.name == x.name {
				if found >= 0 {
					return -1, errf("42702", "ORDER BY %q is ambiguous", x.name)
				}
				found = i
			}
		}
		return found, nil
	case *litExpr:
		if n, ok := x.v.(int64); ok {
			if n < 1 || n > int64(len(out)) {
				return -1, errf("42P10", "ORDER BY position %d is not in select list", n)
			}
			return int(n - 1), nil
		}
	}
	return -1, nil
}

func targetName(tg target) string {
	if tg.alias != "" {
		return tg.alias
	}
	switch x := tg.e.(type) {
	case *colExpr:
		return x.name
	case *funcExpr:
		return x.name
	case *castExpr:
		if c, ok := x.e.(*colExpr); ok {
			return c.name
		}
		return udtName(x.typ)
	case *litExpr:
		if _, ok := x.v.(bool); ok {
			return "bool"
		}
	}
	return "?column?"
}

func hasWindow(e expr) bool {
	found := false
	walkExpr(e, func(x expr) {
		if f, ok := x.(*funcExpr); ok && f.over != nil {
			found = true
		}
	})
	return found
}

// walkExpr visits e and its sub-expressions (not descending into sub-selects).
func walkExpr(e expr, f func(expr)) {
	if e == nil {
		return
	}
	f(e)
	switch x := e.(type) {
	case *binExpr:
		walkExpr(x.l, f)
		walkExpr(x.r, f)
	case *notExpr:
		walkExpr(x.e, f)
	case *negExpr:
		walkExpr(x.e, f)
	case *isNullExpr:
		walkExpr(x.e, f)
	case *anyExpr:
		walkExpr(x.l, f)
		walkExpr(x.r, f)
	case *inExpr:
		walkExpr(x.l, f)
		for _, i := range x.list {
			walkExpr(i, f)
		}
	case *rowExpr:
		for _, i := range x.items {
			walkExpr(i, f)
		}
	case *funcExpr:
		for _, i := range x.args {
			walkExpr(i, f)
		}
		if x.over != nil {
			for _, i := range x.over.partition {
				walkExpr(i, f)
			}
			for _, i := range x.over.order {
				walkExpr(i.e, f)
			}
		}
	case *castExpr:
		walkExpr(x.e, f)
	}
}

func (a *analyzer) wantBool(e expr, sc *scope) *pgErr {
	if p, ok := e.(*paramExpr); ok {
		a.setParam(p.n, tBool)
	}
	t, err := a.expr(e, sc)
	if err != nil {
		return err
	}
	if t != nil && t.kind != kBool {
		return errf("42804", "argument of WHERE/AND/OR/NOT must be type boolean, not type %s", t.Name)
	}
	return nil
}

// unify gives an untyped parameter the type of the expression it is combined with and checks comparability.
func (a *analyzer) unify(l expr, lt *Type, r expr, rt *Type, op string) (*Type, *Type, *pgErr) {
	if p, ok := l.(*paramExpr); ok && lt == nil && rt != nil {
		a.setParam(p.n, rt)
		lt = rt
	}
	if p, ok := r.(*paramExpr); ok && rt == nil && lt != nil {
		a.setParam(p.n, lt)
		rt = lt
	}
	if lt != nil && rt != nil && !sameCategory(lt, rt) {
		return nil, nil, errf("42883", "operator does not exist: %s %s %s", lt.Name, op, rt.Name)
	}
	return lt, rt, nil
}

func (a *analyzer) lookup(sc *scope, qual, name string) (*Type, *pgErr) {
	for depth, s := 0, sc; s != nil; depth, s = depth+1, s.outer {
		qualSeen := false
		for _, c := range s.cols {
			if qual != "" && c.qual != qual {
				continue
			}
			qualSeen = true
			if c.name == name {
				if depth > 0 { // correlated reference: every select between here and there depends on its outer row
					for m := sc; m != s; m = m.outer {
						if m.sel != nil {
							m.sel.correlated = true
						}
					}
				}
				return c.typ, nil
			}
		}
		if qual != "" && qualSeen {
			return nil, errf("42703", "column %s.%s does not exist", qual, name)
		}
	}
	if qual != "" {
		return nil, errf("42P01", "missing FROM-clause entry for table %q", qual)
	}
	return nil, errf("42703", "column %q does not exist", name)
}

// expr returns the static type of e (nil = unknown: NULL, an untyped literal or an untyped parameter).
func (a *analyzer) expr(e expr, sc *scope) (*Type, *pgErr) {
	switch x := e.(type) {
	case *litExpr:
		switch v := x.v.(type) {
		case int64:
			if v >= math.MinInt32 && v <= math.MaxInt32 {
				return tInt4, nil
			}
			return tInt8, nil
		case *big.Int, string:
			return tNumeric, nil
		case bool:
			return tBool, nil
		}
		return nil, nil
	case *paramExpr:
		a.setParam(x.n, nil)
		return a.params[x.n-1], nil
	case *colExpr:
		return a.lookup(sc, x.qual, x.name)
	case *binExpr:
		switch x.op {
		case "and", "or":
			if err := a.wantBool(x.l, sc); err != nil {
				return nil, err
			}
			return tBool, a.wantBool(x.r, sc)
		case "=", "<>", "<", "<=", ">", ">=":
			if lr, ok := x.l.(*rowExpr); ok {
				rr, ok := x.r.(*rowExpr)
				if !ok || len(rr.items) != len(lr.items) {
					return nil, errf("42601", "unequal number of entries in row expressions")
				}
				if x.op != "=" && x.op != "<>" {
					return nil, unsupportedf("row comparison with %s is not supported by simpg", x.op)
				}
				for i := range lr.items {
					if _, err := a.expr(&binExpr{x.op, lr.items[i], rr.items[i]}, sc); err != nil {
						return nil, err
					}
				}
				return tBool, nil
			}
			lt, err := a.expr(x.l, sc)
			if err != nil {
				return nil, err
			}
			rt, err := a.expr(x.r, sc)
			if err != nil {
				return nil, err
			}
			_, _, err = a.unify(x.l, lt, x.r, rt, x.op)
			return tBool, err
		case "+", "-", "*":
			lt, err := a.expr(x.l, sc)
			if err != nil {
				return nil, err
			}
			rt, err := a.expr(x.r, sc)
			if err != nil {
				return nil, err
			}
			lt, rt, err = a.unify(x.l, lt, x.r, rt, x.op)
			if err != nil {
				return nil, err
			}
			for _, t := range []*Type{lt, rt} {
				if t != nil && !isNumericKind(t) {
					return nil, errf("42883", "operator does not exist: %s on type %s", x.op, t.Name)
				}
			}
			switch {
			case lt == nil:
				return rt, nil
			case rt == nil:
				return lt, nil
			case lt.kind == kNumeric || rt.kind == kNumeric:
				return tNumeric, nil
			case lt.kind >= rt.kind: // kInt2 < kInt4 < kInt8
				return lt, nil
			}
			return rt, nil
		case "||":
			for _, s := range []expr{x.l, x.r} {
				if p, ok := s.(*paramExpr); ok {
					a.setParam(p.n, tText)
				}
				if _, err := a.expr(s, sc); err != nil {
					return nil, err
				}
			}
			return tText, nil
		}
	case *notExpr:
		return tBool, a.wantBool(x.e, sc)
	case *negExpr:
		t, err := a.expr(x.e, sc)
		if err == nil && t != nil && !isNumericKind(t) {
			err = errf("42883", "operator does not exist: - %s", t.Name)
		}
		return t, err
	case *isNullExpr:
		_, err := a.expr(x.e, sc)
		return tBool, err
	case *anyExpr:
		lt, err := a.expr(x.l, sc)
		if err != nil {
			return nil, err
		}
		at, err := a.expr(x.r, sc)
		if err != nil {
			return nil, err
		}
		if p, ok := x.r.(*paramExpr); ok && at == nil {
			at = arrayOf(lt)
			a.setParam(p.n, at)
		}
		if _, isLit := x.r.(*litExpr); at == nil && isLit {
			return tBool, nil // '{a,b}' literal: element type follows the left side at run time
		}
		if at == nil || at.kind != kArray {
			return nil, errf("42809", "op ANY/ALL (array) requires array on right side")
		}
		if p, ok := x.l.(*paramExpr); ok && lt == nil {
			a.setParam(p.n, at.elem)
			lt = at.elem
		}
		if lt != nil && !sameCategory(lt, at.elem) {
			return nil, errf("42883", "operator does not exist: %s %s %s", lt.Name, x.op, at.elem.Name)
		}
		return tBool, nil
	case *inExpr:
		if x.sub != nil {
			cols, err := a.selectCols(x.sub, sc)
			if err != nil {
				return nil, err
			}
			items := []expr{x.l}
			if r, ok := x.l.(*rowExpr); ok {
				items = r.items
			}
			if len(cols) > len(items) {
				return nil, errf("42601", "subquery has too many columns")
			}
			if len(cols) < len(items) {
				return nil, errf("42601", "subquery has too few columns")
			}
			for i, it := range items {
				t, err := a.expr(it, sc)
				if err != nil {
					return nil, err
				}
				if _, _, err := a.unify(it, t, nil, cols[i].typ, "="); err != nil {
					return nil, err
				}
			}
			return tBool, nil
		}
		for _, it := range x.list {
			if _, err := a.expr(&binExpr{"=", x.l, it}, sc); err != nil {
				return nil, err
			}
		}
		return tBool, nil
	case *rowExpr:
		for _, it := range x.items {
			if _, err := a.expr(it, sc); err != nil {
				return nil, err
			}
		}
		return nil, nil
	case *castExpr:
		if p, ok := x.e.(*paramExpr); ok {
			a.setParam(p.n, x.typ)
		}
		_, err := a.expr(x.e, sc)
		return x.typ, err
	case *funcExpr:
		return a.funcType(x, sc)
	}
	return nil, unsupportedf("expression is not supported by simpg")
}

func (a *analyzer) funcType(f *funcExpr, sc *scope) (*Type, *pgErr) {
	argTypes := func(want ...*Type) *pgErr {
		if len(f.args) != len(want) || f.star {
			return errf("42883", "function %s with %d arguments does not exist", f.name, len(f.args))
		}
		for i, arg := range f.args {
			if p, ok := arg.(*paramExpr); ok {
				a.setParam(p.n, want[i])
			}
			t, err := a.expr(arg, sc)
			if err != nil {
				return err
			}
			if t != nil && !sameCategory(t, want[i]) {
				return errf("42883", "function %s(%s) does not exist", f.name, t.Name)
			}
		}
		return nil
	}
	if f.over != nil {
		if f.name != "row_number" {
			return nil, unsupportedf("window function %s is not supported by simpg", f.name)
		}
		if err := argTypes(); err != nil {
			return nil, err
		}
		for _, e := range f.over.partition {
			if _, err := a.expr(e, sc); err != nil {
				return nil, err
			}
		}
		for _, it := range f.over.order {
			if _, err := a.expr(it.e, sc); err != nil {
				return nil, err
			}
		}
		return tInt8, nil
	}
	switch f.name {
	case "now", "transaction_timestamp", "statement_timestamp", "clock_timestamp":
		return tTimestamptz, argTypes()
	case "pg_advisory_xact_lock":
		return tVoid, argTypes(tInt8)
	case "pg_notify":
		return tVoid, argTypes(tText, tText)
	case "row_number":
		return nil, errf("42809", "window function row_number requires an OVER clause")
	}
	return nil, &pgErr{Code: "42883", Msg: "function " + f.name + " is not supported by simpg", Unsupported: true}
}
