package simpg

import (
	"encoding/binary"
	"fmt"
	"math/big"
	"sort"
	"strconv"
	"strings"
)

// relation is a materialised intermediate or final result.
type relation struct {
	cols []colDesc
	rows [][]any
	src  []*row // for base-table scans: the stored row behind each tuple
}

// rowEnv is the evaluation environment of one tuple; outer links to the enclosing query's tuple.
type rowEnv struct {
	rel   *relation
	vals  []any
	idx   int
	outer *rowEnv
	win   map[*funcExpr][]any
}

// execCtx is the state of one statement execution.
type execCtx struct {
	s        *Server
	c        *conn
	tx       *txn
	params   []any
	ctes     []map[string]*relation
	subCache map[*selectStmt]*relation
	ignore   map[*txn]bool // transactions whose locks are ignored (Block returned early)
}

type result struct {
	tag  string
	rel  *relation
	copy *copyState
}

// ---- expression evaluation ----

func (x *execCtx) lookupCol(env *rowEnv, qual, name string) (any, *pgErr) {
	for e := env; e != nil; e = e.outer {
		for i, c := range e.rel.cols {
			if c.name == name && (qual == "" || qual == c.qual) {
				return e.vals[i], nil
			}
		}
	}
	if qual != "" {
		return nil, errf("42703", "column %s.%s does not exist", qual, name)
	}
	return nil, errf("42703", "column %q does not exist", name)
}

func truth(v any) (any, *pgErr) {
	switch b := v.(type) {
	case nil:
		return nil, nil
	case bool:
		return b, nil
	case unk:
		return parseBool(string(b))
	}
	return nil, errf("42804", "argument must be type boolean, not %s", goTypeName(v))
}

func applyCmp(op string, c int) bool {
	switch op {
	case "=":
		return c == 0
	case "<>":
		return c != 0
	case "<":
		return c < 0
	case "<=":
		return c <= 0
	case ">":
		return c > 0
	}
	return c >= 0
}

// cmp3 is a three-valued comparison; row values are compared element-wise (only = and <>).
func cmp3(op string, l, r any) (any, *pgErr) {
	lr, lok := l.(rowVal)
	rr, rok := r.(rowVal)
	if lok || rok {
		if !lok || !rok || len(lr) != len(rr) {
			return nil, errf("42601", "unequal number of entries in row expressions")
		}
		if op != "=" && op != "<>" {
			return nil, unsupportedf("row comparison with %s is not supported by simpg", op)
		}
		var res any = true
		for i := range lr {
			v, err := cmp3("=", lr[i], rr[i])
			if err != nil {
				return nil, err
			}
			if v == false {
				res = false
				break
			}
			if v == nil {
				res = nil
			}
		}
		if op == "<>" && res != nil {
			return !res.(bool), nil
		}
		return res, nil
	}
	if l == nil || r == nil {
		return nil, nil
	}
	c, err := compareVals(l, r)
	if err != nil {
		return nil, err
	}
	return applyCmp(op, c), nil
}

func toBig(v any) (*big.Int, *pgErr) {
	switch n := v.(type) {
	case int64:
		return big.NewInt(n), nil
	case *big.Int:
		return n, nil
	case unk:
		d, err := decodeNumeric(0, []byte(n))
		if err != nil {
			return nil, err
		}
		if b, ok := d.(*big.Int); ok {
			return b, nil
		}
	}
	return nil, errf("42883", "operator does not exist for %s", goTypeName(v))
}

func arith(op string, l, r any) (any, *pgErr) {
	if l == nil || r == nil {
		return nil, nil
	}
	a, err := toBig(l)
	if err != nil {
		return nil, err
	}
	b, err := toBig(r)
	if err != nil {
		return nil, err
	}
	res := new(big.Int)
	switch op {
	case "+":
		res.Add(a, b)
	case "-":
		res.Sub(a, b)
	default:
		res.Mul(a, b)
	}
	_, lbig := l.(*big.Int)
	_, rbig := r.(*big.Int)
	if lbig || rbig {
		return res, nil
	}
	if !res.IsInt64() {
		return nil, errf("22003", "bigint out of range")
	}
	return res.Int64(), nil
}

func (x *execCtx) eval(e expr, env *rowEnv) (any, *pgErr) {
	switch n := e.(type) {
	case *litExpr:
		return n.v, nil
	case *paramExpr:
		if n.n > len(x.params) {
			return nil, errf("42P02", "there is no parameter $%d", n.n)
		}
		return x.params[n.n-1], nil
	case *colExpr:
		return x.lookupCol(env, n.qual, n.name)
	case *binExpr:
		switch n.op {
		case "and", "or":
			lv, err := x.eval(n.l, env)
			if err != nil {
				return nil, err
			}
			l, err := truth(lv)
			if err != nil {
				return nil, err
			}
			rv, err := x.eval(n.r, env)
			if err != nil {
				return nil, err
			}
			r, err := truth(rv)
			if err != nil {
				return nil, err
			}
			if n.op == "and" {
				switch {
				case l == false || r == false:
					return false, nil
				case l == nil || r == nil:
					return nil, nil
				}
				return true, nil
			}
			switch {
			case l == true || r == true:
				return true, nil
			case l == nil || r == nil:
				return nil, nil
			}
			return false, nil
		}
		l, err := x.eval(n.l, env)
		if err != nil {
			return nil, err
		}
		r, err := x.eval(n.r, env)
		if err != nil {
			return nil, err
		}
		switch n.op {
		case "+", "-", "*":
			return arith(n.op, l, r)
		case "||":
			if l == nil || r == nil {
				return nil, nil
			}
			return textRepr(nil, l) + textRepr(nil, r), nil
		}
		return cmp3(n.op, l, r)
	case *notExpr:
		v, err := x.eval(n.e, env)
		if err != nil {
			return nil, err
		}
		b, err := truth(v)
		if err != nil || b == nil {
			return nil, err
		}
		return !b.(bool), nil
	case *negExpr:
		v, err := x.eval(n.e, env)
		if err != nil || v == nil {
			return nil, err
		}
		return arith("-", int64(0), v)
	case *isNullExpr:
		v, err := x.eval(n.e, env)
		if err != nil {
			return nil, err
		}
		if r, ok := v.(rowVal); ok {
			return nil, unsupportedf("IS NULL on a row value (%d fields) is not supported by simpg", len(r))
		}
		return (v == nil) != n.not, nil
	case *rowExpr:
		out := make(rowVal, len(n.items))
		for i, it := range n.items {
			v, err := x.eval(it, env)
			if err != nil {
				return nil, err
			}
			out[i] = v
		}
		return out, nil
	case *anyExpr:
		l, err := x.eval(n.l, env)
		if err != nil {
			return nil, err
		}
		av, err := x.eval(n.r, env)
		if err != nil || av == nil {
			return nil, err
		}
		if u, ok := av.(unk); ok { // '{a,b}' literal
			et := tText
			switch l.(type) {
			case int64, *big.Int:
				et = tNumeric
			case []byte:
				et = tBytea
			case bool:
				et = tBool
			}
			if av, err = decodeArrayText(arrayOf(et), string(u)); err != nil {
				return nil, err
			}
		}
		arr, ok := av.([]any)
		if !ok {
			return nil, errf("42809", "op ANY/ALL (array) requires array on right side")
		}
		sawNull := false
		for _, el := range arr {
			v, err := cmp3(n.op, l, el)
			if err != nil {
				return nil, err
			}
			switch {
			case v == nil:
				sawNull = true
			case v == true && !n.all:
				return true, nil
			case v == false && n.all:
				return false, nil
			}
		}
		if sawNull {
			return nil, nil
		}
		return n.all, nil
	case *inExpr:
		l, err := x.eval(n.l, env)
		if err != nil {
			return nil, err
		}
		var cands []any
		if n.sub != nil {
			rel, err := x.subquery(n.sub, env)
			if err != nil {
				return nil, err
			}
			_, isRow := l.(rowVal)
			for _, r := range rel.rows {
				if isRow {
					cands = append(cands, rowVal(r))
				} else {
					cands = append(cands, r[0])
				}
			}
		} else {
			for _, it := range n.list {
				v, err := x.eval(it, env)
				if err != nil {
					return nil, err
				}
				cands = append(cands, v)
			}
		}
		sawNull := false
		for _, cand := range cands {
			v, err := cmp3("=", l, cand)
			if err != nil {
				return nil, err
			}
			if v == true {
				return !n.not, nil
			}
			if v == nil {
				sawNull = true
			}
		}
		if sawNull {
			return nil, nil
		}
		return n.not, nil
	case *castExpr:
		v, err := x.eval(n.e, env)
		if err != nil || v == nil {
			return nil, err
		}
		if u, ok := v.(unk); ok {
			return decodeValue(n.typ, 0, []byte(u))
		}
		if s, ok := v.(string); ok && n.typ.kind != kText {
			return decodeValue(n.typ, 0, []byte(s))
		}
		if n.typ.kind == kText {
			return textRepr(nil, v), nil
		}
		return coerceAssign(n.typ, "cast", v)
	case *funcExpr:
		return x.call(n, env)
	}
	return nil, unsupportedf("expression is not supported by simpg")
}

func (x *execCtx) call(f *funcExpr, env *rowEnv) (any, *pgErr) {
	if f.over != nil {
		if env == nil || env.win == nil || env.win[f] == nil {
			return nil, errf("42P20", "window function %s is not allowed here", f.name)
		}
		return env.win[f][env.idx], nil
	}
	args := make([]any, len(f.args))
	for i, a := range f.args {
		v, err := x.eval(a, env)
		if err != nil {
			return nil, err
		}
		if u, ok := v.(unk); ok {
			v = string(u)
		}
		args[i] = v
	}
	switch f.name {
	case "now", "transaction_timestamp", "statement_timestamp", "clock_timestamp":
		ts := x.s.now()
		if (f.name == "now" || f.name == "transaction_timestamp") && x.tx != nil && x.tx.started {
			ts = x.tx.start // as in Postgres, now() is the start time of the current transaction
		}
		return binary.BigEndian.AppendUint64(nil, uint64(ts)), nil
	case "pg_advisory_xact_lock":
		if args[0] == nil {
			return nil, nil
		}
		b, err := toBig(args[0])
		if err != nil {
			return nil, err
		}
		if !b.IsInt64() {
			return nil, errf("22003", "bigint out of range")
		}
		key := b.Int64()
		for _, o := range x.s.otherOpenTxs(x.tx) {
			if o.advLocks[key] {
				if err := x.lockConflict(o); err != nil {
					return nil, err
				}
			}
		}
		if x.tx.advLocks == nil {
			x.tx.advLocks = map[int64]bool{}
		}
		x.tx.advLocks[key] = true
		x.s.advLocks = append(x.s.advLocks, AdvisoryLock{x.c.id, key})
		return "", nil
	case "pg_notify":
		ch, _ := args[0].(string)
		if args[0] == nil || ch == "" {
			return nil, errf("22023", "channel name cannot be empty")
		}
		payload, _ := args[1].(string)
		for _, n := range x.tx.notes { // duplicates within one transaction are delivered once
			if n.Channel == ch && n.Payload == payload {
				return "", nil
			}
		}
		x.tx.notes = append(x.tx.notes, Notification{x.c.id, ch, payload})
		return "", nil
	}
	return nil, &pgErr{Code: "42883", Msg: "function " + f.name + " is not supported by simpg", Unsupported: true}
}

// lockConflict decides what to do about a lock held by the open transaction o: wait (returns a pgErr carrying
// the transaction) or, when waiting is impossible, ignore it and raise a flag (returns nil).
func (x *execCtx) lockConflict(o *txn) *pgErr {
	if x.ignore[o] {
		return nil
	}
	if x.s.Block == nil {
		x.s.flag("lockwait-ignored")
		return nil
	}
	return &pgErr{Code: "55P03", Msg: "waiting for a lock", wait: o}
}

// ---- SELECT ----

func (x *execCtx) subquery(sel *selectStmt, env *rowEnv) (*relation, *pgErr) {
	if !sel.correlated {
		if rel, ok := x.subCache[sel]; ok {
			return rel, nil
		}
	}
	rel, err := x.runSelect(sel, env)
	if err != nil {
		return nil, err
	}
	if !sel.correlated {
		if x.subCache == nil {
			x.subCache = map[*selectStmt]*relation{}
		}
		x.subCache[sel] = rel
	}
	return rel, nil
}

func (x *execCtx) fromRelation(fi *fromItem, outer *rowEnv) (*relation, *pgErr) {
	if fi.values != nil {
		out := &relation{}
		for i := range fi.values[0] {
			name := fmt.Sprintf("column%d", i+1)
			if i < len(fi.colNames) {
				name = fi.colNames[i]
			}
			out.cols = append(out.cols, colDesc{fi.alias, name, tText})
		}
		for _, row := range fi.values {
			vals := make([]any, len(row))
			for i, e := range row {
				v, err := x.eval(e, outer)
				if err != nil {
					return nil, err
				}
				vals[i] = v
			}
			out.rows = append(out.rows, vals)
		}
		return out, nil
	}
	if fi.sub != nil {
		rel, err := x.runSelect(fi.sub, outer)
		if err != nil {
			return nil, err
		}
		out := &relation{rows: rel.rows, cols: make([]colDesc, len(rel.cols))}
		for i, c := range rel.cols {
			out.cols[i] = colDesc{fi.alias, c.name, c.typ}
		}
		return out, nil
	}
	q := fi.alias
	if q == "" {
		q = fi.table.name
	}
	if fi.table.schema == "" {
		for i := len(x.ctes) - 1; i >= 0; i-- {
			if rel, ok := x.ctes[i][fi.table.name]; ok {
				out := &relation{rows: rel.rows, cols: make([]colDesc, len(rel.cols))}
				for j, c := range rel.cols {
					out.cols[j] = colDesc{q, c.name, c.typ}
				}
				return out, nil
			}
		}
	}
	if fi.table.schema == "information_schema" && fi.table.name == "columns" {
		out := &relation{cols: append([]colDesc{}, infoSchemaColumns...)}
		for i := range out.cols {
			out.cols[i].qual = q
		}
		for _, k := range x.s.sortedTableKeys() {
			t := x.s.tables[k]
			for i, c := range t.cols {
				var def any
				if c.def != nil {
					def = "<default>"
				}
				nullable := "YES"
				if c.notNull {
					nullable = "NO"
				}
				out.rows = append(out.rows, []any{"db", t.schema, t.name, c.name, int64(i + 1), def, nullable, c.typ.Name, udtName(c.typ)})
			}
		}
		return out, nil
	}
	t := x.s.lookupTable(fi.table)
	if t == nil {
		return nil, errf("42P01", "relation %q does not exist", fi.table.String())
	}
	return x.scan(t, fi.alias), nil
}

func (x *execCtx) scan(t *table, alias string) *relation {
	rows := x.s.visible(x.tx, t)
	rel := &relation{cols: tableCols(t, alias), src: rows, rows: make([][]any, len(rows))}
	for i, r := range rows {
		rel.rows[i] = r.vals
	}
	return rel
}

// sortCmp orders values for ORDER BY / PARTITION BY: NULLs sort as larger than everything else.
func sortCmp(a, b any, it orderItem, errp **pgErr) int {
	nullsFirst := it.desc
	if it.nullsFirst != nil {
		nullsFirst = *it.nullsFirst
	}
	switch {
	case a == nil && b == nil:
		return 0
	case a == nil:
		if nullsFirst {
			return -1
		}
		return 1
	case b == nil:
		if nullsFirst {
			return 1
		}
		return -1
	}
	c, err := compareVals(a, b)
	if err != nil && *errp == nil {
		*errp = err
	}
	if it.desc {
		return -c
	}
	return c
}

func toCount(v any, what string) (int, bool, *pgErr) {
	if v == nil {
		return 0, false, nil
	}
	b, err := toBig(v)
	if err != nil {
		return 0, false, errf("42804", "argument of %s must be type bigint", what)
	}
	if b.Sign() < 0 {
		return 0, false, errf("2201W", "%s must not be negative", what)
	}
	if !b.IsInt64() || b.Int64() > 1<<40 {
		return 1 << 40, true, nil
	}
	return int(b.Int64()), true, nil
}

func (x *execCtx) runSelect(sel *selectStmt, outer *rowEnv) (*relation, *pgErr) {
	if len(sel.with) > 0 {
		m := map[string]*relation{}
		x.ctes = append(x.ctes, m)
		defer func() { x.ctes = x.ctes[:len(x.ctes)-1] }()
		for _, c := range sel.with {
			rel, err := x.runSelect(c.sel, outer)
			if err != nil {
				return nil, err
			}
			m[c.name] = rel
		}
	}
	in := &relation{rows: [][]any{nil}} // no FROM: one empty tuple
	if sel.from != nil {
		var err *pgErr
		if in, err = x.fromRelation(sel.from, outer); err != nil {
			return nil, err
		}
	}
	// WHERE
	var kept []int
	for i, vals := range in.rows {
		if sel.where != nil {
			v, err := x.eval(sel.where, &rowEnv{rel: in, vals: vals, idx: i, outer: outer})
			if err != nil {
				return nil, err
			}
			if b, err := truth(v); err != nil {
				return nil, err
			} else if b != true {
				continue
			}
		}
		kept = append(kept, i)
	}
	// window functions
	var win map[*funcExpr][]any
	var wfuncs []*funcExpr
	collect := func(e expr) {
		walkExpr(e, func(n expr) {
			if f, ok := n.(*funcExpr); ok && f.over != nil {
				wfuncs = append(wfuncs, f)
			}
		})
	}
	for _, tg := range sel.targets {
		collect(tg.e)
	}
	for _, it := range sel.orderBy {
		collect(it.e)
	}
	for _, f := range wfuncs {
		if win == nil {
			win = map[*funcExpr][]any{}
		}
		vals, err := x.rowNumbers(f, in, kept, outer)
		if err != nil {
			return nil, err
		}
		win[f] = vals
	}
	// output columns
	out := &relation{}
	type proj struct {
		e   expr
		col int // for * expansion
	}
	var projs []proj
	for _, tg := range sel.targets {
		if tg.star {
			for i, c := range in.cols {
				if tg.qual == "" || tg.qual == c.qual {
					projs = append(projs, proj{col: i})
					out.cols = append(out.cols, colDesc{"", c.name, c.typ})
				}
			}
			continue
		}
		projs = append(projs, proj{e: tg.e})
		out.cols = append(out.cols, colDesc{"", targetName(tg), nil})
	}
	// ORDER BY / DISTINCT ON keys: explicit ORDER BY items first, then DISTINCT ON expressions not covered by them
	order := append([]orderItem{}, sel.orderBy...)
	for _, d := range sel.distinctOn {
		covered := false
		for _, it := range sel.orderBy {
			if containsExpr([]expr{d}, it.e) {
				covered = true
			}
		}
		if !covered {
			order = append(order, orderItem{e: d})
		}
	}
	orderRef := make([]int, len(order))
	for i, it := range order {
		k, err := orderOutputRef(it.e, out.cols)
		if err != nil {
			return nil, err
		}
		orderRef[i] = k
	}
	type outRow struct {
		vals []any
		keys []any
		dkey string
	}
	rows := make([]outRow, 0, len(kept))
	for _, i := range kept {
		env := &rowEnv{rel: in, vals: in.rows[i], idx: i, outer: outer, win: win}
		r := outRow{vals: make([]any, len(projs))}
		for j, p := range projs {
			if p.e == nil {
				r.vals[j] = in.rows[i][p.col]
				continue
			}
			v, err := x.eval(p.e, env)
			if err != nil {
				return nil, err
			}
			switch u := v.(type) {
			case unk:
				v = string(u)
			case rowVal:
				return nil, unsupportedf("row-valued select targets are not supported by simpg")
			}
			r.vals[j] = v
		}
		for j, it := range order {
			if orderRef[j] >= 0 {
				r.keys = append(r.keys, r.vals[orderRef[j]])
				continue
			}
			v, err := x.eval(it.e, env)
			if err != nil {
				return nil, err
			}
			r.keys = append(r.keys, v)
		}
		if len(sel.distinctOn) > 0 {
			var kb []byte
			for _, d := range sel.distinctOn {
				v, err := x.eval(d, env)
				if err != nil {
					return nil, err
				}
				kb = appendKey(kb, v)
			}
			r.dkey = string(kb)
		}
		rows = append(rows, r)
	}
	if len(order) > 0 {
		var serr *pgErr
		sort.SliceStable(rows, func(a, b int) bool {
			for k, it := range order {
				if c := sortCmp(rows[a].keys[k], rows[b].keys[k], it, &serr); c != 0 {
					return c < 0
				}
			}
			return false
		})
		if serr != nil {
			return nil, serr
		}
	}
	if len(sel.distinctOn) > 0 || sel.distinct {
		seen := map[string]bool{}
		uniq := rows[:0:0]
		for _, r := range rows {
			k := r.dkey
			if sel.distinct {
				var kb []byte
				for _, v := range r.vals {
					kb = appendKey(kb, v)
				}
				k = string(kb)
			}
			if !seen[k] {
				seen[k] = true
				uniq = append(uniq, r)
			}
		}
		rows = uniq
	}
	for _, lim := range []struct {
		e      expr
		offset bool
	}{{sel.offset, true}, {sel.limit, false}} {
		if lim.e == nil {
			continue
		}
		v, err := x.eval(lim.e, nil)
		if err != nil {
			return nil, err
		}
		what := "LIMIT"
		if lim.offset {
			what = "OFFSET"
		}
		n, ok, err := toCount(v, what)
		if err != nil {
			return nil, err
		}
		if !ok {
			continue
		}
		if n > len(rows) {
			n = len(rows)
		}
		if lim.offset {
			rows = rows[n:]
		} else {
			rows = rows[:n]
		}
	}
	out.rows = make([][]any, len(rows))
	for i, r := range rows {
		out.rows[i] = r.vals
	}
	return out, nil
}

// rowNumbers computes row_number() OVER (PARTITION BY .. ORDER BY ..) for the kept tuples of in.
func (x *execCtx) rowNumbers(f *funcExpr, in *relation, kept []int, outer *rowEnv) ([]any, *pgErr) {
	type wrow struct {
		idx        int
		part, keys []any
	}
	rows := make([]wrow, len(kept))
	for k, i := range kept {
		env := &rowEnv{rel: in, vals: in.rows[i], idx: i, outer: outer}
		rows[k].idx = i
		for _, e := range f.over.partition {
			v, err := x.eval(e, env)
			if err != nil {
				return nil, err
			}
			rows[k].part = append(rows[k].part, v)
		}
		for _, it := range f.over.order {
			v, err := x.eval(it.e, env)
			if err != nil {
				return nil, err
			}
			rows[k].keys = append(rows[k].keys, v)
		}
	}
	var serr *pgErr
	sort.SliceStable(rows, func(a, b int) bool {
		for k := range f.over.partition {
			if c := sortCmp(rows[a].part[k], rows[b].part[k], orderItem{}, &serr); c != 0 {
				return c < 0
			}
		}
		for k, it := range f.over.order {
			if c := sortCmp(rows[a].keys[k], rows[b].keys[k], it, &serr); c != 0 {
				return c < 0
			}
		}
		return false
	})
	if serr != nil {
		return nil, serr
	}
	out := make([]any, len(in.rows))
	n := int64(0)
	for k, r := range rows {
		same := k > 0
		if same {
			for j := range r.part {
				if sortCmp(r.part[j], rows[k-1].part[j], orderItem{}, &serr) != 0 {
					same = false
				}
			}
		}
		if !same {
			n = 0
		}
		n++
		out[r.idx] = n
	}
	return out, serr
}

// ---- INSERT / DELETE / COPY ----

func (x *execCtx) insert(st *insertStmt) (*result, *pgErr) {
	t := x.s.lookupTable(st.table)
	if t == nil {
		return nil, errf("42P01", "relation %q does not exist", st.table.String())
	}
	idx, err := insertColumns(t, st.cols)
	if err != nil {
		return nil, err
	}
	var news [][]any
	for _, exprs := range st.rows {
		vals := make([]any, len(t.cols))
		set := make([]bool, len(t.cols))
		for i, e := range exprs {
			if e == nil {
				continue
			}
			v, err := x.eval(e, nil)
			if err != nil {
				return nil, err
			}
			vals[idx[i]], set[idx[i]] = v, true
		}
		if err := x.completeRow(t, vals, set); err != nil {
			return nil, err
		}
		news = append(news, vals)
	}
	if err := x.addRows(t, news); err != nil {
		return nil, err
	}
	return &result{tag: "INSERT 0 " + strconv.Itoa(len(news))}, nil
}

// completeRow coerces the given values to the column types, fills defaults and checks NOT NULL.
func (x *execCtx) completeRow(t *table, vals []any, set []bool) *pgErr {
	for i, c := range t.cols {
		v := vals[i]
		if !set[i] && c.def != nil {
			var err *pgErr
			if v, err = x.eval(c.def, nil); err != nil {
				return err
			}
		}
		v, err := coerceAssign(c.typ, c.name, v)
		if err != nil {
			return err
		}
		if v == nil && c.notNull {
			return errf("23502", "null value in column %q of relation %q violates not-null constraint", c.name, t.name)
		}
		if s, ok := v.(string); ok && c.typ.kind == kNumeric {
			x.s.noteUnsupported(fmt.Sprintf("non-integral numeric value %q stored in %s.%s", s, t.key(), c.name))
		}
		vals[i] = v
	}
	return nil
}

func indexKey(t *table, ix *index, vals []any) (string, bool) {
	var kb []byte
	for _, cn := range ix.cols {
		v := vals[t.colIndex(cn)]
		if v == nil {
			return "", false
		}
		kb = appendKey(kb, v)
	}
	return string(kb), true
}

func uniqueViolation(t *table, ix *index, vals []any) *pgErr {
	parts := make([]string, len(ix.cols))
	for i, cn := range ix.cols {
		j := t.colIndex(cn)
		parts[i] = textRepr(t.cols[j].typ, vals[j])
	}
	return &pgErr{Code: "23505", Msg: fmt.Sprintf("duplicate key value violates unique constraint %q", ix.name),
		Detail: fmt.Sprintf("Key (%s)=(%s) already exists.", strings.Join(ix.cols, ", "), strings.Join(parts, ", "))}
}

var newRowMark = &row{id: -1}

// checkUnique verifies the new tuples against every unique index of t: against the rows visible to the
// transaction, against each other, and against uncommitted work of other open transactions (lock wait).
func (x *execCtx) checkUnique(t *table, news [][]any, only *index) *pgErr {
	var uniq []*index
	for _, ix := range t.indexes {
		if ix.unique && (only == nil || only == ix) {
			uniq = append(uniq, ix)
		}
	}
	if len(uniq) == 0 {
		return nil
	}
	vis := x.s.visible(x.tx, t)
	others := x.s.otherOpenTxs(x.tx)
	seen := make([]map[string]*row, len(uniq))
	foreign := make([]map[string]*txn, len(uniq))
	for k, ix := range uniq {
		seen[k] = make(map[string]*row, len(vis))
		for _, r := range vis {
			if key, ok := indexKey(t, ix, r.vals); ok {
				seen[k][key] = r
			}
		}
		for _, o := range others {
			for _, r := range o.inserted[t] {
				if key, ok := indexKey(t, ix, r.vals); ok {
					if foreign[k] == nil {
						foreign[k] = map[string]*txn{}
					}
					if _, dup := foreign[k][key]; !dup {
						foreign[k][key] = o
					}
				}
			}
		}
	}
	for _, vals := range news {
		for k, ix := range uniq {
			key, ok := indexKey(t, ix, vals)
			if !ok {
				continue // NULLs never conflict
			}
			if r, dup := seen[k][key]; dup {
				if r != newRowMark {
					for _, o := range others { // the conflicting row is being deleted by an open transaction
						if _, gone := o.deleted[t][r.id]; gone {
							if err := x.lockConflict(o); err != nil {
								return err
							}
						}
					}
				}
				return uniqueViolation(t, ix, vals)
			}
			if o, ok := foreign[k][key]; ok {
				if err := x.lockConflict(o); err != nil {
					return err
				}
			}
			seen[k][key] = newRowMark
		}
	}
	return nil
}

// addRows checks constraints and then adds the tuples to the transaction overlay, assigning row ids.
func (x *execCtx) addRows(t *table, news [][]any) *pgErr {
	if err := x.checkUnique(t, news, nil); err != nil {
		return err
	}
	for _, vals := range news {
		x.s.nextRowID++
		r := &row{id: x.s.nextRowID, vals: vals}
		x.tx.inserted[t] = append(x.tx.inserted[t], r)
		x.tx.ops = append(x.tx.ops, &change{t, true, r})
	}
	return nil
}

func (x *execCtx) delete(st *deleteStmt) (*result, *pgErr) {
	t := x.s.lookupTable(st.table)
	if t == nil {
		return nil, errf("42P01", "relation %q does not exist", st.table.String())
	}
	rel := x.scan(t, st.alias)
	var hit []*row
	for i, vals := range rel.rows {
		if st.where != nil {
			v, err := x.eval(st.where, &rowEnv{rel: rel, vals: vals, idx: i})
			if err != nil {
				return nil, err
			}
			if b, err := truth(v); err != nil {
				return nil, err
			} else if b != true {
				continue
			}
		}
		hit = append(hit, rel.src[i])
	}
	own := map[int64]bool{}
	for _, r := range x.tx.inserted[t] {
		own[r.id] = true
	}
	others := x.s.otherOpenTxs(x.tx)
	for _, r := range hit {
		if own[r.id] {
			continue
		}
		for _, o := range others {
			if _, gone := o.deleted[t][r.id]; gone {
				if err := x.lockConflict(o); err != nil {
					return nil, err
				}
			}
		}
	}
	for _, r := range hit {
		if own[r.id] {
			x.tx.inserted[t] = removeRow(x.tx.inserted[t], r)
			for i, op := range x.tx.ops {
				if op.r == r && op.insert {
					x.tx.ops = append(x.tx.ops[:i:i], x.tx.ops[i+1:]...)
					break
				}
			}
			continue
		}
		if x.tx.deleted[t] == nil {
			x.tx.deleted[t] = map[int64]*row{}
		}
		x.tx.deleted[t][r.id] = r
		x.tx.ops = append(x.tx.ops, &change{t, false, r})
	}
	return &result{tag: "DELETE " + strconv.Itoa(len(hit))}, nil
}

func removeRow(rows []*row, r *row) []*row {
	for i, o := range rows {
		if o == r {
			return append(rows[:i:i], rows[i+1:]...)
		}
	}
	return rows
}

type copyState struct {
	sql   string
	table qname
	cols  []string
	data  []byte
}

// copyTarget resolves the table and column positions of a COPY statement.
func (s *Server) copyTarget(st *copyStmt) (*table, []int, *pgErr) {
	t := s.lookupTable(st.table)
	if t == nil {
		return nil, nil, errf("42P01", "relation %q does not exist", st.table.String())
	}
	idx, err := insertColumns(t, st.cols)
	return t, idx, err
}

var copySignature = []byte("PGCOPY\n\377\r\n\000")

// copyIn parses a complete PGCOPY binary stream and inserts its tuples.
func (x *execCtx) copyIn(cs *copyState) (*result, *pgErr) {
	t, idx, err := x.s.copyTarget(&copyStmt{table: cs.table, cols: cs.cols})
	if err != nil {
		return nil, err
	}
	bad := func(msg string) (*result, *pgErr) { return nil, errf("22P04", "%s", msg) }
	b := cs.data
	if len(b) < 19 || string(b[:11]) != string(copySignature) {
		return bad("COPY file signature not recognized")
	}
	flags := binary.BigEndian.Uint32(b[11:])
	if flags&(1<<16) != 0 {
		return nil, unsupportedf("COPY BINARY with OIDs is not supported by simpg")
	}
	ext := int(binary.BigEndian.Uint32(b[15:]))
	b = b[19:]
	if ext < 0 || len(b) < ext {
		return bad("invalid COPY file header (wrong length)")
	}
	b = b[ext:]
	var news [][]any
	for len(b) > 0 { // a protocol-level end of data (CopyDone) without the -1 trailer is accepted, as in Postgres; pgx relies on it
		if len(b) < 2 {
			return bad("unexpected EOF in COPY data")
		}
		n := int(int16(binary.BigEndian.Uint16(b)))
		b = b[2:]
		if n == -1 {
			break
		}
		if n != len(idx) {
			return bad(fmt.Sprintf("row field count is %d, expected %d", n, len(idx)))
		}
		vals := make([]any, len(t.cols))
		set := make([]bool, len(t.cols))
		for i := 0; i < n; i++ {
			if len(b) < 4 {
				return bad("unexpected EOF in COPY data")
			}
			l := int(int32(binary.BigEndian.Uint32(b)))
			b = b[4:]
			set[idx[i]] = true
			if l == -1 {
				continue
			}
			if l < 0 || len(b) < l {
				return bad("unexpected EOF in COPY data")
			}
			v, err := decodeValue(t.cols[idx[i]].typ, 1, b[:l])
			if err != nil {
				err.Msg += fmt.Sprintf(" (COPY %s, line %d, column %s)", t.name, len(news)+1, t.cols[idx[i]].name)
				return nil, err
			}
			vals[idx[i]] = v
			b = b[l:]
		}
		if err := x.completeRow(t, vals, set); err != nil {
			return nil, err
		}
		news = append(news, vals)
	}
	if err := x.addRows(t, news); err != nil {
		return nil, err
	}
	x.s.stats.Copies++
	x.s.stats.RowsCopied += len(news)
	return &result{tag: "COPY " + strconv.Itoa(len(news))}, nil
}
