package simpg

import (
	"fmt"
	"strconv"
)

// prepared is a parsed statement (named, unnamed, or one statement of a simple Query).
type prepared struct {
	name string
	sql  string
	ast  any // nil for an empty query
	info *stmtInfo
}

// lockHeld tracks whether the goroutine running a batch currently holds Server.mu (it is released around Block).
type lockHeld struct{ held bool }

// execStmt runs one statement on session c with transaction-state handling, implicit transactions, and the
// lock-wait / retry loop. s.mu is held on entry and on return.
func (s *Server) execStmt(c *conn, p *prepared, params []any, seq int, lk *lockHeld) (*result, *pgErr) {
	s.stats.Statements++
	if tx, ok := p.ast.(*txStmt); ok {
		return s.execTx(c, tx, seq)
	}
	if c.failed {
		return nil, errf("25P02", "current transaction is aborted, commands ignored until end of transaction block")
	}
	if c.tx == nil {
		c.tx = newTxn(c, false).begin(s.now())
	}
	x := &execCtx{s: s, c: c, tx: c.tx, params: params}
	for attempt := 0; ; attempt++ {
		x.subCache, x.ctes = nil, nil
		res, err := x.run(p)
		if err == nil || err.wait == nil {
			return res, err
		}
		other := err.wait
		lk.held = false
		s.mu.Unlock()
		s.Block(func() bool { return other.ended.Load() })
		s.mu.Lock()
		lk.held = true
		if c.dead || c.tx != x.tx {
			return nil, errf("57P01", "terminating connection while waiting for a lock")
		}
		if !other.ended.Load() { // the harness resumed us early: never spin, treat that transaction as invisible
			s.flag("block-returned-early")
			if x.ignore == nil {
				x.ignore = map[*txn]bool{}
			}
			x.ignore[other] = true
		}
	}
}

func (s *Server) execTx(c *conn, st *txStmt, seq int) (*result, *pgErr) {
	switch st.kind {
	case "begin":
		if c.failed {
			return nil, errf("25P02", "current transaction is aborted, commands ignored until end of transaction block")
		}
		if c.tx == nil {
			c.tx = newTxn(c, true).begin(s.now())
		}
		c.tx.explicit = true // BEGIN inside a multi-statement implicit transaction makes it explicit
		return &result{tag: "BEGIN"}, nil
	case "commit":
		if c.tx == nil || !c.tx.explicit {
			return &result{tag: "COMMIT"}, nil // WARNING: there is no transaction in progress
		}
		if c.failed {
			s.endTx(c, "rollback", seq)
			return &result{tag: "ROLLBACK"}, nil
		}
		if s.Flags["lockwait-ignored"] { // uniqueness could not be arbitrated by waiting: re-verify like a deferred constraint
			x := &execCtx{s: s, c: c, ignore: map[*txn]bool{c.tx: true}}
			for _, o := range s.otherOpenTxs(c.tx) {
				x.ignore[o] = true
			}
			for _, k := range s.sortedTableKeys() {
				t := s.tables[k]
				ins := c.tx.inserted[t]
				if len(ins) == 0 {
					continue
				}
				news := make([][]any, len(ins))
				for i, r := range ins {
					news[i] = r.vals
				}
				x.tx = &txn{deleted: c.tx.deleted} // committed rows minus own deletes
				if err := x.checkUnique(t, news, nil); err != nil {
					s.endTx(c, "rollback", seq)
					return nil, err
				}
			}
		}
		s.endTx(c, "commit", seq)
		return &result{tag: "COMMIT"}, nil
	}
	if c.tx != nil && c.tx.explicit {
		s.endTx(c, "rollback", seq)
	}
	return &result{tag: "ROLLBACK"}, nil
}

// run analyses (names, types) and executes one non-transaction-control statement.
func (x *execCtx) run(p *prepared) (*result, *pgErr) {
	s := x.s
	var given []uint32
	if p.info != nil {
		for _, t := range p.info.params {
			given = append(given, t.OID)
		}
	}
	info, err := s.analyze(p.ast, given)
	if err != nil {
		return nil, err
	}
	switch st := p.ast.(type) {
	case *selectStmt:
		if p.info != nil && p.info.returnsRows { // prepared earlier: the catalog may have changed since (e.g. select * + add column)
			same := len(p.info.cols) == len(info.cols)
			for i := 0; same && i < len(info.cols); i++ {
				same = p.info.cols[i].typ.OID == info.cols[i].typ.OID
			}
			if !same {
				return nil, errf("0A000", "cached plan must not change result type")
			}
		}
		rel, err := x.runSelect(st, nil)
		if err != nil {
			return nil, err
		}
		for i := range rel.cols {
			rel.cols[i].typ = info.cols[i].typ
		}
		return &result{tag: "SELECT " + strconv.Itoa(len(rel.rows)), rel: rel}, nil
	case *insertStmt:
		return x.insert(st)
	case *deleteStmt:
		return x.delete(st)
	case *copyDataStmt:
		return x.copyIn(st.cs)
	case *copyStmt:
		return &result{copy: &copyState{sql: p.sql, table: st.table, cols: st.cols}}, nil
	case *setStmt:
		return &result{tag: "SET"}, nil
	case *doStmt:
		return &result{tag: "DO"}, nil
	case *deallocStmt:
		if st.all {
			x.c.stmts = map[string]*prepared{}
		} else if _, ok := x.c.stmts[st.name]; !ok {
			return nil, errf("26000", "prepared statement %q does not exist", st.name)
		} else {
			delete(x.c.stmts, st.name)
		}
		return &result{tag: "DEALLOCATE"}, nil
	case *createSchemaStmt:
		if s.schemas[st.name] {
			if !st.ifNotExists {
				return nil, errf("42P06", "schema %q already exists", st.name)
			}
		} else {
			s.schemas[st.name] = true
			x.tx.undo = append(x.tx.undo, func() { delete(s.schemas, st.name) })
		}
		return &result{tag: "CREATE SCHEMA"}, nil
	case *createTableStmt:
		return x.createTable(st)
	case *createIndexStmt:
		return x.createIndex(st)
	case *alterTableStmt:
		return x.alterTable(st)
	case *dropStmt:
		return x.drop(st)
	case *createViewStmt:
		k := st.name.key()
		if s.tables[k] != nil {
			return nil, errf("42809", "%q is not a view", st.name.String())
		}
		old, existed := s.views[k]
		if existed && !st.replace {
			return nil, errf("42P07", "relation %q already exists", st.name.String())
		}
		if !s.schemaExists(st.name) {
			return nil, errf("3F000", "schema %q does not exist", st.name.schema)
		}
		s.views[k] = st.text
		x.tx.undo = append(x.tx.undo, func() {
			if existed {
				s.views[k] = old
			} else {
				delete(s.views, k)
			}
		})
		return &result{tag: "CREATE VIEW"}, nil
	}
	return nil, unsupportedf("statement is not supported by simpg")
}

func (s *Server) schemaExists(q qname) bool { return q.schema == "" || s.schemas[q.schema] }

func (s *Server) relationExists(schema, name string) bool {
	if schema == "" {
		schema = "public"
	}
	if s.tables[schema+"."+name] != nil {
		return true
	}
	if _, ok := s.views[schema+"."+name]; ok {
		return true
	}
	t, _ := s.findIndex(schema, name)
	return t != nil
}

func (x *execCtx) createTable(st *createTableStmt) (*result, *pgErr) {
	s := x.s
	if !s.schemaExists(st.name) {
		return nil, errf("3F000", "schema %q does not exist", st.name.schema)
	}
	if s.relationExists(st.name.schema, st.name.name) {
		if st.ifNotExists {
			return &result{tag: "CREATE TABLE"}, nil
		}
		return nil, errf("42P07", "relation %q already exists", st.name.name)
	}
	t := &table{schema: st.name.schema, name: st.name.name}
	if t.schema == "" {
		t.schema = "public"
	}
	for _, cd := range st.cols {
		if t.colIndex(cd.name) >= 0 {
			return nil, errf("42701", "column %q specified more than once", cd.name)
		}
		t.cols = append(t.cols, &column{cd.name, cd.typ, cd.ddl, cd.notNull, cd.def})
	}
	s.tables[t.key()] = t
	x.tx.undo = append(x.tx.undo, func() { delete(s.tables, t.key()) })
	return &result{tag: "CREATE TABLE"}, nil
}

func (x *execCtx) createIndex(st *createIndexStmt) (*result, *pgErr) {
	s := x.s
	t := s.lookupTable(st.table)
	if t == nil {
		return nil, errf("42P01", "relation %q does not exist", st.table.String())
	}
	if s.relationExists(t.schema, st.name) {
		if st.ifNotExists {
			return &result{tag: "CREATE INDEX"}, nil
		}
		return nil, errf("42P07", "relation %q already exists", st.name)
	}
	for _, cn := range st.cols {
		if t.colIndex(cn) < 0 {
			return nil, errf("42703", "column %q does not exist", cn)
		}
	}
	ix := &index{st.name, st.unique, st.cols, st.desc}
	if ix.unique { // existing rows must already be unique
		seen := map[string]bool{}
		for _, r := range s.visible(x.tx, t) {
			if key, ok := indexKey(t, ix, r.vals); ok {
				if seen[key] {
					e := uniqueViolation(t, ix, r.vals)
					e.Msg = fmt.Sprintf("could not create unique index %q", ix.name)
					e.Detail = "Key " + e.Detail[4:len(e.Detail)-len(" already exists.")] + " is duplicated."
					return nil, e
				}
				seen[key] = true
			}
		}
	}
	t.indexes = append(t.indexes, ix)
	x.tx.undo = append(x.tx.undo, func() { t.indexes = removeIndex(t.indexes, ix) })
	return &result{tag: "CREATE INDEX"}, nil
}

func removeIndex(list []*index, ix *index) []*index {
	for i, o := range list {
		if o == ix {
			return append(list[:i:i], list[i+1:]...)
		}
	}
	return list
}

// alterTable executes the actions of an ALTER TABLE in order (multi-action form: a, b, …).
func (x *execCtx) alterTable(st *alterTableStmt) (*result, *pgErr) {
	res, err := x.alterTableOne(st)
	if err != nil {
		return nil, err
	}
	for _, m := range st.more {
		if _, err := x.alterTableOne(m); err != nil {
			return nil, err
		}
	}
	return res, nil
}

func (x *execCtx) alterTableOne(st *alterTableStmt) (*result, *pgErr) {
	s := x.s
	t := s.lookupTable(st.table)
	if t == nil {
		if st.tblIfExists {
			return &result{tag: "ALTER TABLE"}, nil
		}
		return nil, errf("42P01", "relation %q does not exist", st.table.String())
	}
	if st.add != nil {
		cd := st.add
		if t.colIndex(cd.name) >= 0 {
			if st.ifExists {
				return &result{tag: "ALTER TABLE"}, nil
			}
			return nil, errf("42701", "column %q of relation %q already exists", cd.name, t.name)
		}
		var def any
		if cd.def != nil {
			v, err := x.eval(cd.def, nil)
			if err != nil {
				return nil, err
			}
			if def, err = coerceAssign(cd.typ, cd.name, v); err != nil {
				return nil, err
			}
		}
		if def == nil && cd.notNull {
			empty := true
			s.allRows(t, func(*row) { empty = false })
			if !empty {
				return nil, errf("23502", "column %q of relation %q contains null values", cd.name, t.name)
			}
		}
		col := &column{cd.name, cd.typ, cd.ddl, cd.notNull, cd.def}
		t.cols = append(t.cols, col)
		s.allRows(t, func(r *row) { r.vals = append(r.vals[:len(r.vals):len(r.vals)], def) })
		x.tx.undo = append(x.tx.undo, func() { s.removeColumn(t, col) })
		return &result{tag: "ALTER TABLE"}, nil
	}
	i := t.colIndex(st.drop)
	if i < 0 {
		if st.ifExists {
			return &result{tag: "ALTER TABLE"}, nil
		}
		return nil, errf("42703", "column %q of relation %q does not exist", st.drop, t.name)
	}
	col := t.cols[i]
	saved := map[*row]any{}
	s.allRows(t, func(r *row) { saved[r] = r.vals[i] })
	oldIdx := t.indexes
	s.removeColumn(t, col)
	x.tx.undo = append(x.tx.undo, func() {
		if i > len(t.cols) {
			return
		}
		t.cols = append(t.cols[:i:i], append([]*column{col}, t.cols[i:]...)...)
		s.allRows(t, func(r *row) {
			nv := make([]any, 0, len(r.vals)+1)
			nv = append(append(append(nv, r.vals[:i]...), saved[r]), r.vals[i:]...)
			r.vals = nv
		})
		t.indexes = oldIdx
	})
	return &result{tag: "ALTER TABLE"}, nil
}

// removeColumn drops a column, its values, and every index that uses it.
func (s *Server) removeColumn(t *table, col *column) {
	i := -1
	for j, c := range t.cols {
		if c == col {
			i = j
		}
	}
	if i < 0 {
		return
	}
	t.cols = append(t.cols[:i:i], t.cols[i+1:]...)
	s.allRows(t, func(r *row) {
		if i < len(r.vals) {
			r.vals = append(r.vals[:i:i], r.vals[i+1:]...)
		}
	})
	var kept []*index
	for _, ix := range t.indexes {
		uses := false
		for _, cn := range ix.cols {
			if cn == col.name {
				uses = true
			}
		}
		if !uses {
			kept = append(kept, ix)
		}
	}
	t.indexes = kept
}

func (x *execCtx) drop(st *dropStmt) (*result, *pgErr) {
	s := x.s
	tag := map[string]string{"index": "DROP INDEX", "view": "DROP VIEW", "table": "DROP TABLE", "schema": "DROP SCHEMA"}[st.what]
	for _, q := range st.names {
		switch st.what {
		case "index":
			t, i := s.findIndex(q.schema, q.name)
			if t == nil {
				if st.ifExists {
					continue
				}
				return nil, errf("42704", "index %q does not exist", q.String())
			}
			ix, pos := t.indexes[i], i
			t.indexes = removeIndex(t.indexes, ix)
			x.tx.undo = append(x.tx.undo, func() {
				if pos > len(t.indexes) {
					pos = len(t.indexes)
				}
				t.indexes = append(t.indexes[:pos:pos], append([]*index{ix}, t.indexes[pos:]...)...)
			})
		case "view":
			k := q.key()
			old, ok := s.views[k]
			if !ok {
				if st.ifExists {
					continue
				}
				return nil, errf("42P01", "view %q does not exist", q.String())
			}
			delete(s.views, k)
			x.tx.undo = append(x.tx.undo, func() { s.views[k] = old })
		case "table":
			t := s.lookupTable(q)
			if t == nil {
				if st.ifExists {
					continue
				}
				return nil, errf("42P01", "table %q does not exist", q.String())
			}
			delete(s.tables, t.key())
			x.tx.undo = append(x.tx.undo, func() { s.tables[t.key()] = t })
		case "schema":
			if !s.schemas[q.name] {
				if st.ifExists {
					continue
				}
				return nil, errf("3F000", "schema %q does not exist", q.name)
			}
			for _, k := range s.sortedTableKeys() {
				if s.tables[k].schema == q.name {
					return nil, errf("2BP01", "cannot drop schema %s because other objects depend on it", q.name)
				}
			}
			delete(s.schemas, q.name)
			x.tx.undo = append(x.tx.undo, func() { s.schemas[q.name] = true })
		}
	}
	return &result{tag: tag}, nil
}
