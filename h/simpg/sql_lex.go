package simpg

import (
	"strconv"
	"strings"
)

type tokKind uint8

const (
	tEOF    tokKind = iota
	tIdent          // unquoted identifier or keyword, lower-cased
	tQIdent         // "quoted identifier", case preserved
	tString         // 'string literal' (unescaped)
	tNumber         // numeric literal text
	tParam          // $n (s holds n)
	tOp             // punctuation / operator
	tDollar         // $tag$ body $tag$
)

type token struct {
	k        tokKind
	s        string
	pos, end int
}

func isIdentStart(c byte) bool {
	return c == '_' || (c >= 'a' && c <= 'z') || (c >= 'A' && c <= 'Z') || c >= 0x80
}

func isIdentPart(c byte) bool { return isIdentStart(c) || (c >= '0' && c <= '9') || c == '$' }

func isDigit(c byte) bool { return c >= '0' && c <= '9' }

// lex tokenizes a complete query string (possibly several statements).
func lex(src string) ([]token, *pgErr) {
	var toks []token
	i, n := 0, len(src)
	for i < n {
		c := src[i]
		switch {
		case c == ' ' || c == '\t' || c == '\n' || c == '\r' || c == '\f':
			i++
		case c == '-' && i+1 < n && src[i+1] == '-':
			for i < n && src[i] != '\n' {
				i++
			}
		case c == '/' && i+1 < n && src[i+1] == '*':
			depth, j := 1, i+2
			for j < n && depth > 0 {
				switch {
				case strings.HasPrefix(src[j:], "/*"):
					depth++
					j += 2
				case strings.HasPrefix(src[j:], "*/"):
					depth--
					j += 2
				default:
					j++
				}
			}
			if depth > 0 {
				return nil, errf("42601", "unterminated /* comment")
			}
			i = j
		case c == '\'' || ((c == 'e' || c == 'E') && i+1 < n && src[i+1] == '\''):
			start, esc := i, false
			if c != '\'' {
				esc = true
				i++
			}
			i++
			var b strings.Builder
			closed := false
			for i < n {
				if src[i] == '\'' {
					if i+1 < n && src[i+1] == '\'' {
						b.WriteByte('\'')
						i += 2
						continue
					}
					i++
					closed = true
					break
				}
				if esc && src[i] == '\\' && i+1 < n {
					i++
					switch src[i] {
					case 'n':
						b.WriteByte('\n')
					case 't':
						b.WriteByte('\t')
					case 'r':
						b.WriteByte('\r')
					case 'b':
						b.WriteByte('\b')
					case 'f':
						b.WriteByte('\f')
					default:
						b.WriteByte(src[i])
					}
					i++
					continue
				}
				b.WriteByte(src[i])
				i++
			}
			if !closed {
				return nil, errf("42601", "unterminated quoted string at or near %q", clip(src[start:]))
			}
			toks = append(toks, token{tString, b.String(), start, i})
		case c == '"':
			start := i
			i++
			var b strings.Builder
			closed := false
			for i < n {
				if src[i] == '"' {
					if i+1 < n && src[i+1] == '"' {
						b.WriteByte('"')
						i += 2
						continue
					}
					i++
					closed = true
					break
				}
				b.WriteByte(src[i])
				i++
			}
			if !closed {
				return nil, errf("42601", "unterminated quoted identifier at or near %q", clip(src[start:]))
			}
			if b.Len() == 0 {
				return nil, errf("42601", "zero-length delimited identifier")
			}
			toks = append(toks, token{tQIdent, b.String(), start, i})
		case c == '$':
			start := i
			j := i + 1
			if j < n && isDigit(src[j]) {
				for j < n && isDigit(src[j]) {
					j++
				}
				toks = append(toks, token{tParam, src[i+1 : j], start, j})
				i = j
				break
			}
			for j < n && isIdentPart(src[j]) && src[j] != '$' {
				j++
			}
			if j >= n || src[j] != '$' {
				return nil, errf("42601", "syntax error at or near \"$\"")
			}
			tag := src[i : j+1]
			endAt := strings.Index(src[j+1:], tag)
			if endAt < 0 {
				return nil, errf("42601", "unterminated dollar-quoted string at or near %q", clip(src[start:]))
			}
			body := src[j+1 : j+1+endAt]
			i = j + 1 + endAt + len(tag)
			toks = append(toks, token{tDollar, body, start, i})
		case isDigit(c) || (c == '.' && i+1 < n && isDigit(src[i+1])):
			start := i
			for i < n && isDigit(src[i]) {
				i++
			}
			if i < n && src[i] == '.' {
				i++
				for i < n && isDigit(src[i]) {
					i++
				}
			}
			if i < n && (src[i] == 'e' || src[i] == 'E') {
				j := i + 1
				if j < n && (src[j] == '+' || src[j] == '-') {
					j++
				}
				if j < n && isDigit(src[j]) {
					for j < n && isDigit(src[j]) {
						j++
					}
					i = j
				}
			}
			toks = append(toks, token{tNumber, src[start:i], start, i})
		case isIdentStart(c):
			start := i
			for i < n && isIdentPart(src[i]) {
				i++
			}
			toks = append(toks, token{tIdent, strings.ToLower(src[start:i]), start, i})
		default:
			start := i
			op := ""
			if i+1 < n {
				switch two := src[i : i+2]; two {
				case "<>", "<=", ">=", "!=", "::", "||":
					op = two
				}
			}
			if op == "" {
				if strings.IndexByte("(),.;*=<>+-/%[]", c) < 0 {
					return nil, errf("42601", "syntax error at or near %q", string(c))
				}
				op = string(c)
			}
			i += len(op)
			toks = append(toks, token{tOp, op, start, i})
		}
	}
	return toks, nil
}

func clip(s string) string {
	if len(s) > 40 {
		return s[:40] + "..."
	}
	return s
}

// rawStmt is one statement of a (possibly multi-statement) query string.
type rawStmt struct {
	text string
	toks []token
}

// splitStatements splits at top-level semicolons; strings, comments and dollar quotes are respected by the lexer.
func splitStatements(src string) ([]rawStmt, *pgErr) {
	toks, err := lex(src)
	if err != nil {
		return nil, err
	}
	var out []rawStmt
	start := 0
	flush := func(end int) {
		if end > start {
			ts := toks[start:end]
			out = append(out, rawStmt{text: src[ts[0].pos:ts[len(ts)-1].end], toks: ts})
		}
	}
	for i, t := range toks {
		if t.k == tOp && t.s == ";" {
			flush(i)
			start = i + 1
		}
	}
	flush(len(toks))
	return out, nil
}

func (t token) String() string {
	switch t.k {
	case tEOF:
		return "end of input"
	case tParam:
		return "$" + t.s
	case tString:
		return "'" + t.s + "'"
	case tQIdent:
		return strconv.Quote(t.s)
	}
	return t.s
}
