package simpg

import (
	"math/big"
	"strconv"
	"strings"
)

// ---- AST ----

type qname struct{ schema, name string }

func (q qname) key() string {
	if q.schema == "" {
		return "public." + q.name
	}
	return q.schema + "." + q.name
}

func (q qname) String() string {
	if q.schema == "" {
		return q.name
	}
	return q.schema + "." + q.name
}

type expr interface{}

type (
	litExpr   struct{ v any } // int64, *big.Int, string (non-integral numeric), unk, bool, nil
	paramExpr struct{ n int }
	colExpr   struct{ qual, name string }
	binExpr   struct {
		op   string // = <> < <= > >= and or + - * ||
		l, r expr
	}
	notExpr    struct{ e expr }
	negExpr    struct{ e expr }
	isNullExpr struct {
		e   expr
		not bool
	}
	anyExpr struct {
		op   string
		l, r expr
		all  bool
	}
	inExpr struct {
		l    expr
		list []expr
		sub  *selectStmt
		not  bool
	}
	rowExpr  struct{ items []expr }
	funcExpr struct {
		name string
		args []expr
		star bool
		over *windowSpec
	}
	castExpr struct {
		e   expr
		typ *Type
	}
)

type windowSpec struct {
	partition []expr
	order     []orderItem
}

type orderItem struct {
	e          expr
	desc       bool
	nullsFirst *bool
}

type target struct {
	e     expr
	alias string
	star  bool
	qual  string // t.*
}

type fromItem struct {
	table qname
	sub   *selectStmt
	alias string
	// (values (e, …), (e, …)) as alias(col, …)
	values   [][]expr
	colNames []string
}

type cte struct {
	name string
	sel  *selectStmt
}

type selectStmt struct {
	with       []cte
	distinct   bool
	distinctOn []expr
	targets    []target
	from       *fromItem
	where      expr
	orderBy    []orderItem
	limit      expr
	offset     expr
	correlated bool // set by the analyzer: references columns of an enclosing query
}

type colDef struct {
	name    string
	typ     *Type
	ddl     string
	notNull bool
	def     expr
}

type (
	txStmt           struct{ kind string } // begin | commit | rollback
	setStmt          struct{}
	doStmt           struct{}
	createSchemaStmt struct {
		name        string
		ifNotExists bool
	}
	createTableStmt struct {
		name        qname
		ifNotExists bool
		cols        []colDef
	}
	createIndexStmt struct {
		name        string
		table       qname
		unique      bool
		ifNotExists bool
		cols        []string
		desc        []bool
	}
	alterTableStmt struct {
		table       qname
		add         *colDef
		drop        string
		ifExists    bool // "if exists" of drop column / "if not exists" of add column
		tblIfExists bool
		more        []*alterTableStmt // further actions of a multi-action ALTER TABLE (a, b, …), same table
	}
	dropStmt struct {
		what     string // index | view | table | schema
		names    []qname
		ifExists bool
	}
	createViewStmt struct {
		name    qname
		replace bool
		text    string
	}
	insertStmt struct {
		table qname
		cols  []string
		rows  [][]expr
	}
	deleteStmt struct {
		table qname
		alias string
		where expr
	}
	copyStmt struct {
		table qname
		cols  []string
	}
	deallocStmt struct {
		name string
		all  bool
	}
)

// ---- parser ----

type parser struct {
	toks []token
	i    int
}

type parseFail struct{ err *pgErr }

func (p *parser) fail(format string, args ...any) {
	panic(parseFail{unsupportedf(format, args...)})
}

func (p *parser) peek() token {
	if p.i < len(p.toks) {
		return p.toks[p.i]
	}
	return token{k: tEOF}
}

func (p *parser) peekAt(n int) token {
	if p.i+n < len(p.toks) {
		return p.toks[p.i+n]
	}
	return token{k: tEOF}
}

func (p *parser) next() token {
	t := p.peek()
	if p.i < len(p.toks) {
		p.i++
	}
	return t
}

func (p *parser) unexpected() {
	p.fail("syntax error at or near %q", p.peek().String())
}

func (p *parser) isKw(w string) bool {
	t := p.peek()
	return t.k == tIdent && t.s == w
}

func (p *parser) isKwAt(n int, w string) bool {
	t := p.peekAt(n)
	return t.k == tIdent && t.s == w
}

// kw consumes the given keyword sequence if it is next.
func (p *parser) kw(words ...string) bool {
	for i, w := range words {
		if !p.isKwAt(i, w) {
			return false
		}
	}
	p.i += len(words)
	return true
}

func (p *parser) expectKw(words ...string) {
	if !p.kw(words...) {
		p.unexpected()
	}
}

func (p *parser) isOp(op string) bool {
	t := p.peek()
	return t.k == tOp && t.s == op
}

func (p *parser) op(op string) bool {
	if p.isOp(op) {
		p.i++
		return true
	}
	return false
}

func (p *parser) expectOp(op string) {
	if !p.op(op) {
		p.unexpected()
	}
}

func (p *parser) ident() string {
	t := p.next()
	if t.k != tIdent && t.k != tQIdent {
		p.i--
		p.unexpected()
	}
	return t.s
}

func (p *parser) qname() qname {
	parts := []string{p.ident()}
	for p.op(".") {
		parts = append(parts, p.ident())
	}
	q := qname{"", parts[len(parts)-1]}
	if len(parts) > 1 {
		q.schema = parts[len(parts)-2]
	}
	if q.schema == "public" {
		q.schema = ""
	}
	return q
}

func (p *parser) identList() []string {
	p.expectOp("(")
	var out []string
	for {
		out = append(out, p.ident())
		if !p.op(",") {
			break
		}
	}
	p.expectOp(")")
	return out
}

// parseStatement parses one statement. Anything outside the subset is a 42601 flagged Unsupported.
func parseStatement(rs rawStmt) (st any, err *pgErr) {
	p := &parser{toks: rs.toks}
	defer func() {
		if r := recover(); r != nil {
			if pf, ok := r.(parseFail); ok {
				st, err = nil, pf.err
				return
			}
			panic(r)
		}
	}()
	st = p.statement(rs)
	if p.peek().k != tEOF {
		p.unexpected()
	}
	return st, nil
}

func (p *parser) statement(rs rawStmt) any {
	t := p.peek()
	if t.k != tIdent && !(t.k == tOp && t.s == "(") {
		p.unexpected()
	}
	switch t.s {
	case "begin", "start":
		p.next()
		if t.s == "start" {
			p.expectKw("transaction")
		}
		p.i = len(p.toks) // transaction modes are accepted and ignored
		return &txStmt{"begin"}
	case "commit", "end":
		p.next()
		_ = p.kw("transaction") || p.kw("work")
		return &txStmt{"commit"}
	case "rollback", "abort":
		p.next()
		_ = p.kw("transaction") || p.kw("work")
		return &txStmt{"rollback"}
	case "set":
		p.next()
		_ = p.kw("session") || p.kw("local")
		p.ident()
		for p.op(".") {
			p.ident()
		}
		if !p.op("=") && !p.kw("to") {
			p.unexpected()
		}
		if p.peek().k == tEOF {
			p.unexpected()
		}
		p.i = len(p.toks)
		return &setStmt{}
	case "do":
		p.next()
		if k := p.next().k; k != tDollar && k != tString {
			p.i--
			p.unexpected()
		}
		return &doStmt{}
	case "create":
		return p.create(rs)
	case "alter":
		return p.alter()
	case "drop":
		return p.drop()
	case "insert":
		return p.insert()
	case "delete":
		return p.delete()
	case "select", "with":
		return p.selectStmt()
	case "copy":
		return p.copy()
	case "deallocate":
		p.next()
		p.kw("prepare")
		if p.kw("all") {
			return &deallocStmt{all: true}
		}
		return &deallocStmt{name: p.ident()}
	}
	p.unexpected()
	return nil
}

func (p *parser) ifNotExists() bool { return p.kw("if", "not", "exists") }
func (p *parser) ifExists() bool    { return p.kw("if", "exists") }

func (p *parser) create(rs rawStmt) any {
	p.expectKw("create")
	switch {
	case p.kw("schema"):
		ine := p.ifNotExists()
		return &createSchemaStmt{p.ident(), ine}
	case p.kw("table"):
		st := &createTableStmt{}
		st.ifNotExists = p.ifNotExists()
		st.name = p.qname()
		p.expectOp("(")
		for {
			st.cols = append(st.cols, p.colDef())
			if !p.op(",") {
				break
			}
		}
		p.expectOp(")")
		return st
	case p.isKw("unique") || p.isKw("index"):
		st := &createIndexStmt{unique: p.kw("unique")}
		p.expectKw("index")
		p.kw("concurrently")
		st.ifNotExists = p.ifNotExists()
		st.name = p.ident()
		p.expectKw("on")
		st.table = p.qname()
		if p.kw("using") {
			if m := p.ident(); m != "btree" {
				p.fail("index method %q is not supported by simpg", m)
			}
		}
		p.expectOp("(")
		for {
			st.cols = append(st.cols, p.colName())
			desc := false
			if p.kw("desc") {
				desc = true
			} else {
				p.kw("asc")
			}
			if p.kw("nulls") {
				if !p.kw("first") && !p.kw("last") {
					p.unexpected()
				}
			}
			st.desc = append(st.desc, desc)
			if !p.op(",") {
				break
			}
		}
		p.expectOp(")")
		return st
	case p.isKw("view") || p.isKw("or"):
		st := &createViewStmt{}
		if p.kw("or") {
			p.expectKw("replace")
			st.replace = true
		}
		p.expectKw("view")
		st.name = p.qname()
		p.expectKw("as")
		if p.peek().k == tEOF {
			p.unexpected()
		}
		st.text = strings.TrimSpace(rs.text[p.peek().pos-rs.toks[0].pos:])
		p.i = len(p.toks)
		return st
	}
	p.unexpected()
	return nil
}

// reservedWords: PostgreSQL key words of category "reserved" (appendix C; pg_get_keywords() catdesc =
// 'reserved'). An unquoted one cannot name a column: CREATE TABLE, ALTER TABLE ADD/DROP COLUMN and the column
// list of CREATE INDEX answer 42601 — a definite syntax error, not a limit of this fake (not "unsupported").
var reservedWords = func() map[string]bool {
	m := map[string]bool{}
	for _, w := range strings.Fields(`all analyse analyze and any array as asc asymmetric both case cast check collate column
constraint create current_catalog current_date current_role current_time current_timestamp current_user default deferrable
desc distinct do else end except false fetch for foreign from grant group having in initially intersect into lateral leading
limit localtime localtimestamp not null offset on only or order placing primary references returning select session_user
some symmetric table then to trailing true union unique user using variadic when where window with`) {
		m[w] = true
	}
	return m
}()

// colName is ident() for a column name in DDL: an unquoted reserved word is a syntax error.
func (p *parser) colName() string {
	if t := p.peek(); t.k == tIdent && reservedWords[t.s] {
		panic(parseFail{errf("42601", "syntax error at or near %q", t.s)})
	}
	return p.ident()
}

func (p *parser) colDef() colDef {
	cd := colDef{name: p.colName()}
	cd.typ, cd.ddl = p.typeName()
	for {
		switch {
		case p.kw("not", "null"):
			cd.notNull = true
		case p.kw("null"):
		case p.kw("default"):
			cd.def = p.addExpr()
		default:
			return cd
		}
	}
}

// typeName parses a (possibly multi-word, parameterised, array) type name.
func (p *parser) typeName() (*Type, string) {
	t := p.next()
	if t.k != tIdent && t.k != tQIdent {
		p.i--
		p.unexpected()
	}
	name := strings.ToLower(t.s)
	switch name {
	case "double":
		p.expectKw("precision")
		name = "double precision"
	case "character", "char":
		if p.kw("varying") {
			name = "character varying"
		}
	case "timestamp", "time":
		mod := p.typeMods()
		if p.kw("with", "time", "zone") {
			name += " with time zone"
		} else if p.kw("without", "time", "zone") {
			name += " without time zone"
		}
		_ = mod
	}
	p.typeMods()
	typ, _ := lookupType(name)
	if p.op("[") {
		p.expectOp("]")
		return arrayOf(typ), name + "[]"
	}
	return typ, name
}

func (p *parser) typeMods() string {
	if !p.isOp("(") {
		return ""
	}
	p.next()
	var parts []string
	for {
		t := p.next()
		if t.k != tNumber {
			p.i--
			p.unexpected()
		}
		parts = append(parts, t.s)
		if !p.op(",") {
			break
		}
	}
	p.expectOp(")")
	return strings.Join(parts, ",")
}

func (p *parser) alter() any {
	p.expectKw("alter")
	p.expectKw("table")
	st := &alterTableStmt{}
	st.tblIfExists = p.ifExists()
	p.kw("only")
	st.table = p.qname()
	cur := st
	for {
		switch {
		case p.kw("add"):
			p.kw("column")
			cur.ifExists = p.ifNotExists()
			cd := p.colDef()
			cur.add = &cd
		case p.kw("drop"):
			p.kw("column")
			cur.ifExists = p.ifExists()
			cur.drop = p.colName()
			_ = p.kw("cascade") || p.kw("restrict")
		default:
			p.unexpected()
		}
		if !p.op(",") {
			break
		}
		cur = &alterTableStmt{table: st.table, tblIfExists: st.tblIfExists}
		st.more = append(st.more, cur)
	}
	return st
}

func (p *parser) drop() any {
	p.expectKw("drop")
	st := &dropStmt{}
	switch {
	case p.kw("index"):
		st.what = "index"
	case p.kw("view"):
		st.what = "view"
	case p.kw("table"):
		st.what = "table"
	case p.kw("schema"):
		st.what = "schema"
	default:
		p.unexpected()
	}
	st.ifExists = p.ifExists()
	for {
		st.names = append(st.names, p.qname())
		if !p.op(",") {
			break
		}
	}
	_ = p.kw("cascade") || p.kw("restrict")
	return st
}

func (p *parser) insert() any {
	p.expectKw("insert")
	p.expectKw("into")
	st := &insertStmt{table: p.qname()}
	if p.isOp("(") {
		st.cols = p.identList()
	}
	p.expectKw("values")
	for {
		p.expectOp("(")
		var row []expr
		for {
			if p.kw("default") {
				row = append(row, nil)
			} else {
				row = append(row, p.expr())
			}
			if !p.op(",") {
				break
			}
		}
		p.expectOp(")")
		st.rows = append(st.rows, row)
		if !p.op(",") {
			break
		}
	}
	return st
}

func (p *parser) delete() any {
	p.expectKw("delete")
	p.expectKw("from")
	p.kw("only")
	st := &deleteStmt{table: p.qname()}
	st.alias = p.optAlias()
	if p.kw("where") {
		st.where = p.expr()
	}
	return st
}

func (p *parser) copy() any {
	p.expectKw("copy")
	st := &copyStmt{table: p.qname()}
	if p.isOp("(") {
		st.cols = p.identList()
	}
	p.expectKw("from")
	p.expectKw("stdin")
	if !p.kw("binary") && !p.kw("with", "binary") {
		p.fail("only COPY ... FROM STDIN BINARY is supported by simpg")
	}
	return st
}

var reservedAfterExpr = map[string]bool{"from": true, "where": true, "order": true, "limit": true, "offset": true,
	"group": true, "having": true, "union": true, "intersect": true, "except": true, "for": true, "into": true,
	"window": true, "fetch": true, "on": true, "join": true, "left": true, "right": true, "inner": true, "cross": true,
	"full": true, "natural": true, "using": true, "as": true, "and": true, "or": true, "not": true, "returning": true,
	"asc": true, "desc": true, "nulls": true, "then": true, "else": true, "end": true, "when": true, "is": true, "in": true,
	"set": true, "values": true, "select": true, "with": true}

func (p *parser) optAlias() string {
	if p.kw("as") {
		return p.ident()
	}
	t := p.peek()
	if t.k == tQIdent || (t.k == tIdent && !reservedAfterExpr[t.s]) {
		p.next()
		return t.s
	}
	return ""
}

func (p *parser) selectStmt() *selectStmt {
	sel := &selectStmt{}
	if p.kw("with") {
		if p.isKw("recursive") {
			p.fail("WITH RECURSIVE is not supported by simpg")
		}
		for {
			c := cte{name: p.ident()}
			p.expectKw("as")
			p.expectOp("(")
			c.sel = p.selectStmt()
			p.expectOp(")")
			sel.with = append(sel.with, c)
			if !p.op(",") {
				break
			}
		}
	}
	p.expectKw("select")
	if p.kw("distinct") {
		sel.distinct = true
		if p.kw("on") {
			p.expectOp("(")
			sel.distinctOn = p.exprList()
			p.expectOp(")")
			sel.distinct = false
		}
	} else {
		p.kw("all")
	}
	for {
		var tg target
		switch {
		case p.isOp("*"):
			p.next()
			tg.star = true
		case (p.peek().k == tIdent || p.peek().k == tQIdent) && p.peekAt(1).k == tOp && p.peekAt(1).s == "." &&
			p.peekAt(2).k == tOp && p.peekAt(2).s == "*":
			tg.star, tg.qual = true, p.ident()
			p.i += 2
		default:
			tg.e = p.expr()
			tg.alias = p.optAlias()
		}
		sel.targets = append(sel.targets, tg)
		if !p.op(",") {
			break
		}
	}
	if p.kw("from") {
		fi := &fromItem{}
		if p.op("(") {
			if p.kw("values") {
				for {
					p.expectOp("(")
					fi.values = append(fi.values, p.exprList())
					p.expectOp(")")
					if !p.op(",") {
						break
					}
				}
				p.expectOp(")")
				fi.alias = p.optAlias()
				if fi.alias == "" {
					p.fail("VALUES in FROM must have an alias")
				}
				if p.isOp("(") {
					fi.colNames = p.identList()
				}
			} else {
				fi.sub = p.selectStmt()
				p.expectOp(")")
				fi.alias = p.optAlias()
				if fi.alias == "" {
					p.fail("subquery in FROM must have an alias")
				}
			}
		} else {
			p.kw("only")
			fi.table = p.qname()
			fi.alias = p.optAlias()
		}
		sel.from = fi
		if p.isOp(",") || p.isKw("join") || p.isKw("left") || p.isKw("right") || p.isKw("inner") || p.isKw("cross") ||
			p.isKw("full") || p.isKw("natural") {
			p.fail("joins are not supported by simpg")
		}
	}
	if p.kw("where") {
		sel.where = p.expr()
	}
	if p.isKw("group") || p.isKw("having") || p.isKw("window") || p.isKw("union") || p.isKw("intersect") || p.isKw("except") {
		p.fail("%s is not supported by simpg", strings.ToUpper(p.peek().s))
	}
	if p.kw("order") {
		p.expectKw("by")
		sel.orderBy = p.orderList()
	}
	for p.isKw("limit") || p.isKw("offset") {
		if p.kw("limit") {
			if !p.kw("all") {
				sel.limit = p.addExpr()
			}
		} else {
			p.next()
			sel.offset = p.addExpr()
			_ = p.kw("rows") || p.kw("row")
		}
	}
	if p.isKw("for") || p.isKw("fetch") {
		p.fail("%s is not supported by simpg", strings.ToUpper(p.peek().s))
	}
	return sel
}

func (p *parser) orderList() []orderItem {
	var out []orderItem
	for {
		it := orderItem{e: p.expr()}
		if p.kw("desc") {
			it.desc = true
		} else {
			p.kw("asc")
		}
		if p.kw("nulls") {
			first := p.kw("first")
			if !first {
				p.expectKw("last")
			}
			it.nullsFirst = &first
		}
		out = append(out, it)
		if !p.op(",") {
			return out
		}
	}
}

func (p *parser) exprList() []expr {
	var out []expr
	for {
		out = append(out, p.expr())
		if !p.op(",") {
			return out
		}
	}
}

// Operator precedence follows PostgreSQL: OR < AND < NOT < IS < comparison < IN < || < +- < */ < unary - < ::
func (p *parser) expr() expr {
	l := p.andExpr()
	for p.kw("or") {
		l = &binExpr{"or", l, p.andExpr()}
	}
	return l
}

func (p *parser) andExpr() expr {
	l := p.notExprP()
	for p.kw("and") {
		l = &binExpr{"and", l, p.notExprP()}
	}
	return l
}

func (p *parser) notExprP() expr {
	if p.kw("not") {
		return &notExpr{p.notExprP()}
	}
	return p.isExpr()
}

func (p *parser) isExpr() expr {
	l := p.cmpExpr()
	for p.isKw("is") {
		p.next()
		not := p.kw("not")
		switch {
		case p.kw("null"):
			l = &isNullExpr{l, not}
		case p.kw("true"), p.kw("false"), p.kw("unknown"), p.kw("distinct"):
			p.fail("IS [NOT] TRUE/FALSE/UNKNOWN/DISTINCT FROM is not supported by simpg")
		default:
			p.unexpected()
		}
	}
	return l
}

var cmpOps = map[string]string{"=": "=", "<>": "<>", "!=": "<>", "<": "<", "<=": "<=", ">": ">", ">=": ">="}

func (p *parser) cmpExpr() expr {
	l := p.inExprP()
	for {
		t := p.peek()
		op, ok := cmpOps[t.s]
		if t.k != tOp || !ok {
			return l
		}
		p.next()
		if (p.isKw("any") || p.isKw("some") || p.isKw("all")) && p.peekAt(1).k == tOp && p.peekAt(1).s == "(" {
			all := p.next().s == "all"
			p.expectOp("(")
			if p.isKw("select") || p.isKw("with") {
				p.fail("ANY/ALL (subquery) is not supported by simpg")
			}
			r := p.expr()
			p.expectOp(")")
			l = &anyExpr{op, l, r, all}
			continue
		}
		l = &binExpr{op, l, p.inExprP()}
	}
}

func (p *parser) inExprP() expr {
	l := p.concatExpr()
	for {
		not := false
		switch {
		case p.isKw("not") && p.isKwAt(1, "in"):
			p.i += 2
			not = true
		case p.isKw("in"):
			p.next()
		case p.isKw("between") || p.isKw("like") || p.isKw("ilike") || p.isKw("similar") ||
			(p.isKw("not") && (p.isKwAt(1, "between") || p.isKwAt(1, "like") || p.isKwAt(1, "ilike"))):
			p.fail("BETWEEN/LIKE are not supported by simpg")
		default:
			return l
		}
		p.expectOp("(")
		in := &inExpr{l: l, not: not}
		if p.isKw("select") || p.isKw("with") {
			in.sub = p.selectStmt()
		} else {
			in.list = p.exprList()
		}
		p.expectOp(")")
		l = in
	}
}

func (p *parser) concatExpr() expr {
	l := p.addExpr()
	for p.op("||") {
		l = &binExpr{"||", l, p.addExpr()}
	}
	return l
}

func (p *parser) addExpr() expr {
	l := p.mulExpr()
	for {
		switch {
		case p.op("+"):
			l = &binExpr{"+", l, p.mulExpr()}
		case p.op("-"):
			l = &binExpr{"-", l, p.mulExpr()}
		default:
			return l
		}
	}
}

func (p *parser) mulExpr() expr {
	l := p.unaryExpr()
	for {
		switch {
		case p.op("*"):
			l = &binExpr{"*", l, p.unaryExpr()}
		case p.isOp("/") || p.isOp("%"):
			p.fail("operator %s is not supported by simpg", p.peek().s)
		default:
			return l
		}
	}
}

func (p *parser) unaryExpr() expr {
	if p.op("-") {
		e := p.unaryExpr()
		if l, ok := e.(*litExpr); ok {
			switch v := l.v.(type) {
			case int64:
				return &litExpr{-v}
			case *big.Int:
				n := new(big.Int).Neg(v)
				if n.IsInt64() {
					return &litExpr{n.Int64()}
				}
				return &litExpr{n}
			case string:
				return &litExpr{"-" + v}
			}
		}
		return &negExpr{e}
	}
	if p.op("+") {
		return p.unaryExpr()
	}
	return p.castExprP()
}

func (p *parser) castExprP() expr {
	e := p.primary()
	for p.op("::") {
		t, _ := p.typeName()
		e = &castExpr{e, t}
	}
	return e
}

func (p *parser) primary() expr {
	t := p.next()
	switch t.k {
	case tNumber:
		if !strings.ContainsAny(t.s, ".eE") {
			if v, err := strconv.ParseInt(t.s, 10, 64); err == nil {
				return &litExpr{v}
			}
			v, _ := new(big.Int).SetString(t.s, 10)
			return &litExpr{v}
		}
		v, err := decodeNumeric(0, []byte(t.s))
		if err != nil {
			p.fail("invalid numeric literal %q", t.s)
		}
		if b, ok := v.(*big.Int); ok && b.IsInt64() {
			return &litExpr{b.Int64()}
		}
		return &litExpr{v}
	case tString:
		return &litExpr{unk(t.s)}
	case tParam:
		n, err := strconv.Atoi(t.s)
		if err != nil || n < 1 || n > 65535 {
			p.fail("invalid parameter $%s", t.s)
		}
		return &paramExpr{n}
	case tOp:
		if t.s == "(" {
			if p.isKw("select") || p.isKw("with") {
				p.fail("scalar subqueries are not supported by simpg")
			}
			items := p.exprList()
			p.expectOp(")")
			if len(items) == 1 {
				return items[0]
			}
			return &rowExpr{items}
		}
	case tIdent, tQIdent:
		if t.k == tIdent {
			switch t.s {
			case "true":
				return &litExpr{true}
			case "false":
				return &litExpr{false}
			case "null":
				return &litExpr{nil}
			case "case", "exists", "array", "cast", "row", "interval", "select", "not", "from", "where", "and", "or":
				p.i--
				if t.s == "case" || t.s == "exists" || t.s == "array" || t.s == "cast" || t.s == "row" || t.s == "interval" {
					p.fail("%s expressions are not supported by simpg", strings.ToUpper(t.s))
				}
				p.unexpected()
			case "current_timestamp":
				return &funcExpr{name: "now"}
			}
		}
		if p.isOp("(") && t.k == tIdent {
			return p.funcCall(t.s)
		}
		if p.isOp(".") {
			p.next()
			b := p.ident()
			if p.isOp("(") { // schema-qualified function, e.g. pg_catalog.now()
				return p.funcCall(b)
			}
			if p.op(".") {
				return &colExpr{b, p.ident()} // schema.table.col
			}
			return &colExpr{t.s, b}
		}
		return &colExpr{"", t.s}
	}
	p.i--
	p.unexpected()
	return nil
}

func (p *parser) funcCall(name string) expr {
	p.expectOp("(")
	f := &funcExpr{name: name}
	if p.op("*") {
		f.star = true
	} else if !p.isOp(")") {
		if p.isKw("distinct") {
			p.fail("aggregate DISTINCT is not supported by simpg")
		}
		f.args = p.exprList()
	}
	p.expectOp(")")
	if p.kw("over") {
		p.expectOp("(")
		w := &windowSpec{}
		if p.kw("partition") {
			p.expectKw("by")
			w.partition = p.exprList()
		}
		if p.kw("order") {
			p.expectKw("by")
			w.order = p.orderList()
		}
		p.expectOp(")")
		f.over = w
	}
	return f
}
