package simpg

import (
	"context"
	"errors"
	"fmt"
	"math/big"
	"reflect"
	"strings"
	"sync"
	"testing"
	"time"

	"github.com/jackc/pgx/v5"
	"github.com/jackc/pgx/v5/pgconn"
	"github.com/jackc/pgx/v5/pgxpool"
)

// evLog collects OnCommit events (the hook may be called from several goroutines).
type evLog struct {
	mu  sync.Mutex
	evs []CommitEvent
}

func (l *evLog) add(e CommitEvent) { l.mu.Lock(); l.evs = append(l.evs, e); l.mu.Unlock() }

// take returns and clears the collected events.
func (l *evLog) take() []CommitEvent {
	l.mu.Lock()
	defer l.mu.Unlock()
	out := l.evs
	l.evs = nil
	return out
}

// evString renders events compactly: kind@conn[op table#id{col=val ...} ...]
func evString(evs []CommitEvent) string {
	var parts []string
	for _, e := range evs {
		var chs []string
		for _, c := range e.Changes {
			chs = append(chs, fmt.Sprintf("%s %s#%d%s", c.Op, c.Table, c.Row.ID, rowString(c.Row)))
		}
		parts = append(parts, fmt.Sprintf("%s@%d[%s]", e.Kind, e.Conn, strings.Join(chs, ", ")))
	}
	return strings.Join(parts, " ")
}

func rowString(r Row) string {
	var keys []string
	for k := range r.Vals {
		keys = append(keys, k)
	}
	sortStrings(keys)
	var parts []string
	for _, k := range keys {
		switch v := r.Vals[k].(type) {
		case nil:
			parts = append(parts, k+"=NULL")
		case []byte:
			parts = append(parts, fmt.Sprintf("%s=\\x%x", k, v))
		default:
			parts = append(parts, fmt.Sprintf("%s=%v", k, v))
		}
	}
	return "{" + strings.Join(parts, " ") + "}"
}

func sortStrings(a []string) {
	for i := 1; i < len(a); i++ {
		for j := i; j > 0 && a[j] < a[j-1]; j-- {
			a[j], a[j-1] = a[j-1], a[j]
		}
	}
}

// newObserved returns a server with an event log and a pool.
func newObserved(t testing.TB) (*Server, *pgxpool.Pool, *evLog) {
	t.Helper()
	s := NewServer()
	l := &evLog{}
	s.OnCommit = l.add
	p, err := s.NewPool(bg)
	if err != nil {
		t.Fatal(err)
	}
	t.Cleanup(func() { closePool(t, p) })
	return s, p, l
}

func acquire(t testing.TB, p *pgxpool.Pool) *pgxpool.Conn {
	t.Helper()
	c, err := p.Acquire(bg)
	if err != nil {
		t.Fatal(err)
	}
	return c
}

type querier interface {
	Query(ctx context.Context, sql string, args ...any) (pgx.Rows, error)
}

// ints runs a query returning one integer column and renders the values as "1 2 3".
func ints(t testing.TB, q querier, sql string, args ...any) string {
	t.Helper()
	rows, err := q.Query(bg, sql, args...)
	if err != nil {
		t.Fatalf("%s: %v", sql, err)
	}
	var out []string
	for rows.Next() {
		var v *int64
		if err := rows.Scan(&v); err != nil {
			t.Fatalf("%s: %v", sql, err)
		}
		if v == nil {
			out = append(out, "NULL")
		} else {
			out = append(out, fmt.Sprint(*v))
		}
	}
	if err := rows.Err(); err != nil {
		t.Fatalf("%s: %v", sql, err)
	}
	return strings.Join(out, " ")
}

func wantCode(t testing.TB, err error, code string) {
	t.Helper()
	var pe *pgconn.PgError
	if !errors.As(err, &pe) || pe.Code != code {
		t.Fatalf("want SQLSTATE %s, got %v", code, err)
	}
}

func TestTxIsolation(t *testing.T) {
	s, p, log := newObserved(t)
	mustExec(t, p, "create table t (k int, v text)")
	mustExec(t, p, "create unique index u_t on t (k)")
	if got := evString(log.take()); got != "" {
		t.Fatalf("DDL-only autocommit reported: %s", got)
	}
	c1, c2 := acquire(t, p), acquire(t, p)
	defer c1.Release()
	defer c2.Release()
	id1 := int(c1.Conn().PgConn().PID())
	id2 := int(c2.Conn().PgConn().PID())
	if id1 == id2 || !reflect.DeepEqual(s.Conns(), []int{id1, id2}) {
		t.Fatalf("conn ids %d %d, server has %v", id1, id2, s.Conns())
	}

	// autocommit outside begin/commit
	mustExec(t, c2, "insert into t (k, v) values ($1, $2)", 1, "auto")
	if got := evString(log.take()); got != fmt.Sprintf("autocommit@%d[insert public.t#1{k=1 v=auto}]", id2) {
		t.Fatalf("autocommit event: %s", got)
	}
	// a read-only autocommit statement reports nothing
	if got := ints(t, c2, "select k from t"); got != "1" {
		t.Fatal(got)
	}
	if got := evString(log.take()); got != "" {
		t.Fatalf("read-only statement reported: %s", got)
	}

	// inserts in an open tx are invisible elsewhere until commit
	tx, err := c1.Begin(bg)
	if err != nil {
		t.Fatal(err)
	}
	mustExec(t, tx, "insert into t (k, v) values ($1, $2)", 2, "two")
	mustExec(t, tx, "insert into t (k, v) values (3, 'three')")
	if got := ints(t, tx, "select k from t order by k"); got != "1 2 3" {
		t.Fatalf("own view: %s", got)
	}
	if got := ints(t, c2, "select k from t order by k"); got != "1" {
		t.Fatalf("other connection sees uncommitted rows: %s", got)
	}
	if got := len(s.Dump("t")); got != 1 {
		t.Fatalf("Dump sees uncommitted rows: %d", got)
	}
	if got := len(s.DumpTx(id1, "t")); got != 3 {
		t.Fatalf("DumpTx: %d", got)
	}
	if got := len(s.DumpTx(id2, "t")); got != 1 {
		t.Fatalf("DumpTx of the other connection: %d", got)
	}
	if !reflect.DeepEqual(s.OpenTxs(), []int{id1}) {
		t.Fatalf("open txs: %v", s.OpenTxs())
	}
	h0 := s.StateHash()
	if got := evString(log.take()); got != "" {
		t.Fatalf("events before commit: %s", got)
	}
	if err := tx.Commit(bg); err != nil {
		t.Fatal(err)
	}
	if err := tx.Rollback(bg); !errors.Is(err, pgx.ErrTxClosed) { // shovel's deferred Rollback after Commit
		t.Fatalf("rollback after commit: %v", err)
	}
	if got := evString(log.take()); got != fmt.Sprintf("commit@%d[insert public.t#2{k=2 v=two}, insert public.t#3{k=3 v=three}]", id1) {
		t.Fatalf("commit event: %s", got)
	}
	if got := ints(t, c2, "select k from t order by k"); got != "1 2 3" {
		t.Fatalf("after commit: %s", got)
	}
	if s.StateHash() == h0 {
		t.Fatal("StateHash unchanged by a commit")
	}

	// rollback discards; the event carries the discarded changes
	tx, _ = c1.Begin(bg)
	mustExec(t, tx, "insert into t (k, v) values (4, 'four')")
	mustExec(t, tx, "delete from t where k = $1", 1)
	if got := ints(t, tx, "select k from t order by k"); got != "2 3 4" {
		t.Fatalf("own view: %s", got)
	}
	h1 := s.StateHash()
	if err := tx.Rollback(bg); err != nil {
		t.Fatal(err)
	}
	if got := evString(log.take()); got != fmt.Sprintf("rollback@%d[insert public.t#4{k=4 v=four}, delete public.t#1{k=1 v=auto}]", id1) {
		t.Fatalf("rollback event: %s", got)
	}
	if got := ints(t, c1, "select k from t order by k"); got != "1 2 3" || s.StateHash() != h1 {
		t.Fatalf("after rollback: %s", got)
	}

	// a delete in an open tx is invisible to others until commit
	tx, _ = c1.Begin(bg)
	tag, err := tx.Exec(bg, "delete from t where k >= $1", 2)
	if err != nil || tag.RowsAffected() != 2 {
		t.Fatalf("delete: %v %v", tag, err)
	}
	if got := ints(t, c2, "select k from t order by k"); got != "1 2 3" {
		t.Fatalf("other connection sees uncommitted delete: %s", got)
	}
	if got := ints(t, tx, "select k from t order by k"); got != "1" {
		t.Fatalf("own view after delete: %s", got)
	}
	if err := tx.Commit(bg); err != nil {
		t.Fatal(err)
	}
	if got := evString(log.take()); got != fmt.Sprintf("commit@%d[delete public.t#2{k=2 v=two}, delete public.t#3{k=3 v=three}]", id1) {
		t.Fatalf("delete commit event: %s", got)
	}
	if got := ints(t, c2, "select k from t order by k"); got != "1" {
		t.Fatalf("after delete commit: %s", got)
	}

	// unique conflict between a committed row and an insert: 23505, state E, commit rolls back
	tx, _ = c1.Begin(bg)
	mustExec(t, tx, "insert into t (k, v) values (10, 'ten')")
	_, err = tx.Exec(bg, "insert into t (k, v) values ($1, $2)", 1, "dup")
	wantCode(t, err, "23505")
	if st := c1.Conn().PgConn().TxStatus(); st != 'E' {
		t.Fatalf("tx status %c", st)
	}
	_, err = tx.Exec(bg, "select k from t")
	wantCode(t, err, "25P02")
	_, err = tx.Exec(bg, "insert into t (k, v) values ($1, $2)", 11, "x")
	wantCode(t, err, "25P02")
	if err := tx.Commit(bg); !errors.Is(err, pgx.ErrTxCommitRollback) {
		t.Fatalf("commit in state E: %v", err)
	}
	if st := c1.Conn().PgConn().TxStatus(); st != 'I' {
		t.Fatalf("tx status after failed commit %c", st)
	}
	if got := evString(log.take()); got != fmt.Sprintf("rollback@%d[insert public.t#5{k=10 v=ten}]", id1) {
		t.Fatalf("aborted tx event: %s", got)
	}
	if got := ints(t, c2, "select k from t order by k"); got != "1" {
		t.Fatalf("after aborted tx: %s", got)
	}
	// the same conflict outside a transaction: error, state I, nothing reported
	_, err = c1.Exec(bg, "insert into t (k, v) values ($1, $2)", 1, "dup")
	wantCode(t, err, "23505")
	if st := c1.Conn().PgConn().TxStatus(); st != 'I' {
		t.Fatalf("tx status %c", st)
	}
	log.take()

	// the same tx inserts, deletes and re-inserts the same key; it also replaces a committed row
	tx, _ = c1.Begin(bg)
	mustExec(t, tx, "insert into t (k, v) values (20, 'a')")
	_, err = tx.Exec(bg, "insert into t (k, v) values (20, 'again')")
	wantCode(t, err, "23505") // own uncommitted row conflicts as well
	tx.Rollback(bg)
	log.take()
	tx, _ = c1.Begin(bg)
	mustExec(t, tx, "insert into t (k, v) values (20, 'a')")
	tag, err = tx.Exec(bg, "delete from t where k = 20")
	if err != nil || tag.RowsAffected() != 1 {
		t.Fatalf("delete own row: %v %v", tag, err)
	}
	mustExec(t, tx, "insert into t (k, v) values (20, 'b')")
	mustExec(t, tx, "delete from t where k = 1")
	mustExec(t, tx, "insert into t (k, v) values (1, 'replaced')")
	if got := ints(t, tx, "select k from t order by k"); got != "1 20" {
		t.Fatalf("own view: %s", got)
	}
	if err := tx.Commit(bg); err != nil {
		t.Fatal(err)
	}
	ev := log.take()
	if len(ev) != 1 || len(ev[0].Changes) != 3 {
		t.Fatalf("events: %s", evString(ev))
	}
	ids := []int64{ev[0].Changes[0].Row.ID, ev[0].Changes[2].Row.ID}
	want := fmt.Sprintf("commit@%d[insert public.t#%d{k=20 v=b}, delete public.t#1{k=1 v=auto}, insert public.t#%d{k=1 v=replaced}]", id1, ids[0], ids[1])
	if got := evString(ev); got != want || !(ids[0] > 5 && ids[1] > ids[0]) {
		t.Fatalf("net diff: %s\nwant     %s", got, want)
	}
	rows := s.Committed("t")
	if len(rows) != 2 || rows[0].ID != ids[0] || rows[1].ID != ids[1] || rows[0].Vals["v"] != "b" || rows[1].Vals["v"] != "replaced" {
		t.Fatalf("committed rows not in RowID order: %+v", rows)
	}

	// connection drop mid-tx discards
	tx, _ = c1.Begin(bg)
	mustExec(t, tx, "insert into t (k, v) values (30, 'lost')")
	c1.Conn().PgConn().Conn().Close() // the network connection dies under pgx
	ev = log.take()
	if len(ev) != 1 || ev[0].Kind != "connloss" || ev[0].Conn != id1 || len(ev[0].Changes) != 1 || ev[0].Changes[0].Row.Vals["k"] != int64(30) {
		t.Fatalf("connloss event: %s", evString(ev))
	}
	if _, err := tx.Exec(bg, "select 1"); err == nil {
		t.Fatal("statement on a dropped connection succeeded")
	}
	rollbackDone := make(chan error, 1)
	go func() { rollbackDone <- tx.Rollback(bg) }()
	select {
	case <-rollbackDone:
	case <-time.After(5 * time.Second):
		t.Fatal("Rollback on a dropped connection hangs")
	}
	if got := ints(t, c2, "select k from t order by k"); got != "1 20" {
		t.Fatalf("after connection loss: %s", got)
	}
	if !reflect.DeepEqual(s.Conns(), []int{id2}) || len(s.OpenTxs()) != 0 {
		t.Fatalf("sessions after drop: %v, open %v", s.Conns(), s.OpenTxs())
	}
	if got := evString(log.take()); got != "" {
		t.Fatalf("spurious events: %s", got)
	}
	noUnsupported(t, s)
}

// TestTxLockWait covers conflicts with another OPEN transaction, with and without the Block hook.
func TestTxLockWait(t *testing.T) {
	for _, outcome := range []string{"commit", "rollback"} {
		t.Run("block-"+outcome, func(t *testing.T) {
			s := NewServer()
			blocked := make(chan struct{}, 1)
			s.Block = func(ready func() bool) {
				blocked <- struct{}{}
				for !ready() {
					time.Sleep(time.Millisecond)
				}
			}
			p, err := s.NewPool(bg)
			if err != nil {
				t.Fatal(err)
			}
			defer closePool(t, p)
			mustExec(t, p, "create table t (k int)")
			mustExec(t, p, "create unique index u_t on t (k)")
			tx1, _ := p.Begin(bg)
			mustExec(t, tx1, "insert into t (k) values (1)")
			res := make(chan error, 1)
			go func() {
				tx2, err := p.Begin(bg)
				if err != nil {
					res <- err
					return
				}
				defer tx2.Rollback(bg)
				if _, err := tx2.Exec(bg, "insert into t (k) values (1)"); err != nil {
					res <- err
					return
				}
				res <- tx2.Commit(bg)
			}()
			select {
			case <-blocked:
			case err := <-res:
				t.Fatalf("conflicting insert did not wait: %v", err)
			case <-time.After(5 * time.Second):
				t.Fatal("Block not called")
			}
			if outcome == "commit" {
				if err := tx1.Commit(bg); err != nil {
					t.Fatal(err)
				}
				wantCode(t, <-res, "23505")
			} else {
				tx1.Rollback(bg)
				if err := <-res; err != nil {
					t.Fatal(err)
				}
			}
			if got := len(s.Dump("t")); got != 1 {
				t.Fatalf("rows: %d", got)
			}
			if s.Flag("lockwait-ignored") {
				t.Fatal("lockwait-ignored raised although Block is set")
			}
		})
	}
	t.Run("noblock", func(t *testing.T) {
		s, p := newPool(t)
		mustExec(t, p, "create table t (k int)")
		mustExec(t, p, "create unique index u_t on t (k)")
		tx1, _ := p.Begin(bg)
		tx2, _ := p.Begin(bg)
		mustExec(t, tx1, "insert into t (k) values (1)")
		mustExec(t, tx2, "insert into t (k) values (1)") // cannot wait: the other tx's row is treated as invisible
		if !s.Flag("lockwait-ignored") {
			t.Fatal("lockwait-ignored not raised")
		}
		if err := tx1.Commit(bg); err != nil {
			t.Fatal(err)
		}
		wantCode(t, tx2.Commit(bg), "23505") // re-verified at commit
		tx2.Rollback(bg)
		if got := s.Dump("t"); len(got) != 1 || got[0].ID != 1 {
			t.Fatalf("rows: %+v", got)
		}
		if len(s.OpenTxs()) != 0 {
			t.Fatalf("open txs: %v", s.OpenTxs())
		}
	})
}

func TestStateHash(t *testing.T) {
	mk := func(order []int) *Server {
		s := NewServer()
		p, err := s.NewPool(bg)
		if err != nil {
			t.Fatal(err)
		}
		defer closePool(t, p)
		mustExec(t, p, "create table t (k int, n numeric, b bytea, insert_at timestamptz default now(), latency interval)")
		for _, k := range order {
			mustExec(t, p, "insert into t (k, n, b, latency) values ($1, $2, $3, $4)", k, uint64(k)*1000, []byte{byte(k)}, time.Duration(k)*time.Second)
		}
		return s
	}
	a, b := mk([]int{1, 2, 3}), mk([]int{3, 1, 2})
	if a.StateHash() != b.StateHash() {
		t.Fatal("hash depends on insertion order / row ids / insert_at / latency")
	}
	if a.StateHash() == mk([]int{1, 2}).StateHash() || a.StateHash() == mk([]int{1, 2, 4}).StateHash() {
		t.Fatal("hash collision between different contents")
	}
	if a.StateHash() == NewServer().StateHash() {
		t.Fatal("hash ignores tables")
	}
	// Dump returns exactly the documented Go types
	r := a.Dump("public.t")[1].Vals
	if r["k"] != int64(2) || r["n"].(*big.Int).Int64() != 2000 || !reflect.DeepEqual(r["b"], []byte{2}) {
		t.Fatalf("row: %#v", r)
	}
	if _, ok := r["insert_at"].([]byte); !ok {
		t.Fatalf("insert_at: %#v", r["insert_at"])
	}
}

// blockingServer returns a server whose Block hook polls (real goroutines) and reports each wait on a channel.
func blockingServer(t *testing.T) (*Server, *pgxpool.Pool, chan struct{}) {
	s := NewServer()
	blocked := make(chan struct{}, 8)
	s.Block = func(ready func() bool) {
		blocked <- struct{}{}
		for !ready() {
			time.Sleep(time.Millisecond)
		}
	}
	p, err := s.NewPool(bg)
	if err != nil {
		t.Fatal(err)
	}
	t.Cleanup(func() { closePool(t, p) })
	return s, p, blocked
}

func awaitBlocked(t *testing.T, blocked chan struct{}, res chan string) {
	t.Helper()
	select {
	case <-blocked:
	case r := <-res:
		t.Fatalf("statement did not wait: %s", r)
	case <-time.After(5 * time.Second):
		t.Fatal("Block not called")
	}
}

// Two transactions deleting the same row, and two transactions taking the same advisory lock.
func TestTxLockWaitDeleteAndAdvisory(t *testing.T) {
	for _, outcome := range []string{"commit", "rollback"} {
		t.Run("delete-"+outcome, func(t *testing.T) {
			s, p, blocked := blockingServer(t)
			mustExec(t, p, "create table t (k int)")
			mustExec(t, p, "insert into t (k) values (1), (2)")
			tx1, _ := p.Begin(bg)
			mustExec(t, tx1, "delete from t where k = 1")
			res := make(chan string, 1)
			go func() {
				tag, err := p.Exec(bg, "delete from t where k <= $1", 2)
				res <- fmt.Sprint(tag, " ", err)
			}()
			awaitBlocked(t, blocked, res)
			want := "DELETE 1 <nil>" // READ COMMITTED: the row deleted by the committed tx1 is gone on re-evaluation
			if outcome == "commit" {
				tx1.Commit(bg)
			} else {
				tx1.Rollback(bg)
				want = "DELETE 2 <nil>"
			}
			if got := <-res; got != want {
				t.Fatalf("second delete: %s, want %s", got, want)
			}
			if len(s.Dump("t")) != 0 {
				t.Fatalf("rows left: %v", s.Dump("t"))
			}
		})
	}
	t.Run("advisory", func(t *testing.T) {
		s, p, blocked := blockingServer(t)
		tx1, _ := p.Begin(bg)
		mustExec(t, tx1, "select pg_advisory_xact_lock($1)", int64(42))
		mustExec(t, tx1, "select pg_advisory_xact_lock($1)", int64(42)) // re-entrant for the holder
		tx3, _ := p.Begin(bg)
		mustExec(t, tx3, "select pg_advisory_xact_lock($1)", int64(43)) // other keys are independent
		tx3.Rollback(bg)
		res := make(chan string, 1)
		go func() {
			tx2, err := p.Begin(bg)
			if err != nil {
				res <- err.Error()
				return
			}
			defer tx2.Rollback(bg)
			_, err = tx2.Exec(bg, "select pg_advisory_xact_lock($1)", int64(42))
			res <- fmt.Sprint(err)
		}()
		awaitBlocked(t, blocked, res)
		select {
		case r := <-res:
			t.Fatalf("second locker got the lock while it is held: %s", r)
		case <-time.After(30 * time.Millisecond):
		}
		tx1.Commit(bg)
		if got := <-res; got != "<nil>" {
			t.Fatal(got)
		}
		if l := s.AdvisoryLocks(); len(l) != 4 {
			t.Fatalf("advisory lock log: %+v", l)
		}
	})
}
