package simpg

import (
	"bytes"
	"encoding/binary"
	"encoding/hex"
	"encoding/json"
	"fmt"
	"math"
	"math/big"
	"strconv"
	"strings"
	"sync"
	"unicode/utf8"

	"github.com/jackc/pgx/v5/pgtype"
)

// pgErr is a server-side error that becomes an ErrorResponse.
type pgErr struct {
	Code, Msg   string
	Detail      string
	Unsupported bool // also record the statement in Server.Unsupported()
	wait        *txn // not an error: the statement must wait for this transaction to end and be retried
}

func (e *pgErr) Error() string { return e.Code + ": " + e.Msg }

func errf(code, format string, args ...any) *pgErr {
	return &pgErr{Code: code, Msg: fmt.Sprintf(format, args...)}
}

func unsupportedf(format string, args ...any) *pgErr {
	return &pgErr{Code: "42601", Msg: fmt.Sprintf(format, args...), Unsupported: true}
}

type kind uint8

const (
	kText kind = iota + 1
	kNumeric
	kBytea
	kInt2
	kInt4
	kInt8
	kBool
	kJSON   // stored as the JSON text ([]byte)
	kOpaque // stored as the binary wire representation ([]byte), transcoded with pgtype
	kVoid
	kArray
)

// Type describes one SQL type known to the fake.
type Type struct {
	Name string // information_schema.columns.data_type spelling
	OID  uint32
	kind kind
	elem *Type
	size int16
}

var (
	tText        = &Type{"text", 25, kText, nil, -1}
	tVarchar     = &Type{"character varying", 1043, kText, nil, -1}
	tBpchar      = &Type{"character", 1042, kText, nil, -1}
	tName        = &Type{"name", 19, kText, nil, 64}
	tNumeric     = &Type{"numeric", 1700, kNumeric, nil, -1}
	tBytea       = &Type{"bytea", 17, kBytea, nil, -1}
	tInt2        = &Type{"smallint", 21, kInt2, nil, 2}
	tInt4        = &Type{"integer", 23, kInt4, nil, 4}
	tInt8        = &Type{"bigint", 20, kInt8, nil, 8}
	tBool        = &Type{"boolean", 16, kBool, nil, 1}
	tInterval    = &Type{"interval", 1186, kOpaque, nil, 16}
	tTimestamptz = &Type{"timestamp with time zone", 1184, kOpaque, nil, 8}
	tTimestamp   = &Type{"timestamp without time zone", 1114, kOpaque, nil, 8}
	tDate        = &Type{"date", 1082, kOpaque, nil, 4}
	tJSONB       = &Type{"jsonb", 3802, kJSON, nil, -1}
	tJSON        = &Type{"json", 114, kJSON, nil, -1}
	tUUID        = &Type{"uuid", 2950, kOpaque, nil, 16}
	tFloat8      = &Type{"double precision", 701, kOpaque, nil, 8}
	tFloat4      = &Type{"real", 700, kOpaque, nil, 4}
	tVoid        = &Type{"void", 2278, kVoid, nil, 4}
)

var typeNames = map[string]*Type{
	"text": tText, "varchar": tVarchar, "character varying": tVarchar, "char": tBpchar, "character": tBpchar,
	"bpchar": tBpchar, "name": tName, "numeric": tNumeric, "decimal": tNumeric, "bytea": tBytea,
	"int2": tInt2, "smallint": tInt2, "int": tInt4, "integer": tInt4, "int4": tInt4, "int8": tInt8, "bigint": tInt8,
	"bool": tBool, "boolean": tBool, "interval": tInterval, "timestamptz": tTimestamptz,
	"timestamp with time zone": tTimestamptz, "timestamp": tTimestamp, "timestamp without time zone": tTimestamp,
	"date": tDate, "jsonb": tJSONB, "json": tJSON, "uuid": tUUID, "float8": tFloat8, "double precision": tFloat8,
	"float4": tFloat4, "real": tFloat4, "void": tVoid,
}

var arrayOIDs = map[uint32]uint32{16: 1000, 17: 1001, 19: 1003, 20: 1016, 21: 1005, 23: 1007, 25: 1009,
	1042: 1014, 1043: 1015, 1700: 1231, 2950: 2951, 1184: 1185, 1114: 1115, 1082: 1182, 701: 1022, 700: 1021,
	114: 199, 3802: 3807, 1186: 1187}

var (
	arrayTypes   = map[uint32]*Type{} // by element OID
	typesByOID   = map[uint32]*Type{}
	arrayTypesMu sync.Mutex
)

func init() {
	for _, t := range typeNames {
		typesByOID[t.OID] = t
	}
	for eo, ao := range arrayOIDs {
		e := typesByOID[eo]
		a := &Type{Name: "ARRAY", OID: ao, kind: kArray, elem: e, size: -1}
		arrayTypes[eo] = a
		typesByOID[ao] = a
	}
}

func arrayOf(t *Type) *Type {
	if t == nil {
		return arrayTypes[25]
	}
	if a, ok := arrayTypes[t.OID]; ok {
		return a
	}
	return arrayTypes[25]
}

// lookupType maps a DDL type name to a Type. Unknown names are treated as text (second result false).
func lookupType(name string) (*Type, bool) {
	if t, ok := typeNames[name]; ok {
		return t, true
	}
	return tText, false
}

// Value wrappers that only exist during evaluation.
type (
	unk    string // string literal of yet-unknown type
	rowVal []any  // (a, b, c)
)

// The shared pgtype.Map is not safe for concurrent use.
var (
	tm   = pgtype.NewMap()
	tmMu sync.Mutex
)

var (
	minInt = map[kind]int64{kInt2: math.MinInt16, kInt4: math.MinInt32, kInt8: math.MinInt64}
	maxInt = map[kind]int64{kInt2: math.MaxInt16, kInt4: math.MaxInt32, kInt8: math.MaxInt64}
)

func intInRange(t *Type, v int64) *pgErr {
	if v < minInt[t.kind] || v > maxInt[t.kind] {
		return errf("22003", "%s out of range", t.Name)
	}
	return nil
}

func parseInt(t *Type, s string) (any, *pgErr) {
	s = strings.TrimSpace(s)
	v, err := strconv.ParseInt(s, 10, 64)
	if err != nil {
		if ne, ok := err.(*strconv.NumError); ok && ne.Err == strconv.ErrRange {
			return nil, errf("22003", "value %q is out of range for type %s", s, t.Name)
		}
		return nil, errf("22P02", "invalid input syntax for type %s: %q", t.Name, s)
	}
	if v < minInt[t.kind] || v > maxInt[t.kind] {
		return nil, errf("22003", "value %q is out of range for type %s", s, t.Name)
	}
	return v, nil
}

func parseBool(s string) (any, *pgErr) {
	switch strings.ToLower(strings.TrimSpace(s)) {
	case "t", "tr", "tru", "true", "y", "ye", "yes", "on", "1":
		return true, nil
	case "f", "fa", "fal", "fals", "false", "n", "no", "of", "off", "0":
		return false, nil
	}
	return nil, errf("22P02", "invalid input syntax for type boolean: %q", s)
}

func parseBytea(s string) (any, *pgErr) {
	if strings.HasPrefix(s, `\x`) {
		h := strings.Map(func(r rune) rune {
			if r == ' ' || r == '\n' || r == '\t' || r == '\r' {
				return -1
			}
			return r
		}, s[2:])
		b, err := hex.DecodeString(h)
		if err != nil {
			return nil, errf("22P02", "invalid hexadecimal data: %v", err)
		}
		return b, nil
	}
	out := make([]byte, 0, len(s))
	for i := 0; i < len(s); i++ {
		if s[i] != '\\' {
			out = append(out, s[i])
			continue
		}
		if i+1 < len(s) && s[i+1] == '\\' {
			out = append(out, '\\')
			i++
			continue
		}
		if i+3 < len(s) {
			if v, err := strconv.ParseUint(s[i+1:i+4], 8, 8); err == nil {
				out = append(out, byte(v))
				i += 3
				continue
			}
		}
		return nil, errf("22P02", "invalid input syntax for type bytea")
	}
	return out, nil
}

var maxNumericExp = int32(131072)

// decodeNumeric uses pgtype's numeric codec for both wire formats. Scale-0 values become *big.Int;
// anything else (fraction, NaN, infinity) is returned as its text form (a string), which the caller flags.
func decodeNumeric(format int16, b []byte) (any, *pgErr) {
	if format == 0 { // fast path for plain integers
		s := strings.TrimSpace(string(b))
		if len(s) > 0 && len(s) < 200000 && isPlainInt(s) {
			if v, ok := new(big.Int).SetString(s, 10); ok {
				return v, nil
			}
		}
	}
	if format == 0 {
		if v, ok := parseNumericText(strings.TrimSpace(string(b))); ok {
			return v, nil
		}
	}
	var n pgtype.Numeric
	tmMu.Lock()
	err := tm.Scan(1700, format, b, &n)
	tmMu.Unlock()
	if err != nil {
		if format == 0 {
			return nil, errf("22P02", "invalid input syntax for type numeric: %q", string(b))
		}
		return nil, errf("22P03", "invalid binary numeric: %v", err)
	}
	if !n.Valid {
		return nil, nil
	}
	if n.NaN {
		return "NaN", nil
	}
	if n.InfinityModifier != 0 {
		if n.InfinityModifier < 0 {
			return "-Infinity", nil
		}
		return "Infinity", nil
	}
	if n.Exp > maxNumericExp || n.Exp < -maxNumericExp {
		return nil, errf("22003", "value overflows numeric format")
	}
	v := new(big.Int).Set(n.Int)
	if n.Exp > 0 {
		v.Mul(v, new(big.Int).Exp(big.NewInt(10), big.NewInt(int64(n.Exp)), nil))
	} else if n.Exp < 0 {
		q, r := new(big.Int).QuoRem(v, new(big.Int).Exp(big.NewInt(10), big.NewInt(int64(-n.Exp)), nil), new(big.Int))
		if r.Sign() != 0 {
			return fracString(n.Int, n.Exp), nil
		}
		v = q
	}
	return v, nil
}

// parseNumericText accepts Postgres' decimal input syntax with an optional exponent ("1e3", "-2.50", ".5E+2").
// Integral values come back as *big.Int, others as their plain decimal text. Special values (NaN, Infinity) and
// anything malformed are left to pgtype (ok == false).
func parseNumericText(s string) (any, bool) {
	i, n := 0, len(s)
	neg := false
	if i < n && (s[i] == '+' || s[i] == '-') {
		neg = s[i] == '-'
		i++
	}
	var digits []byte
	for i < n && isDigit(s[i]) {
		digits = append(digits, s[i])
		i++
	}
	intDigits, scale := len(digits), 0
	if i < n && s[i] == '.' {
		i++
		for i < n && isDigit(s[i]) {
			digits = append(digits, s[i])
			scale++
			i++
		}
	}
	if len(digits) == 0 || (intDigits == 0 && scale == 0) {
		return nil, false
	}
	exp := 0
	if i < n && (s[i] == 'e' || s[i] == 'E') {
		j := i + 1
		if j < n && (s[j] == '+' || s[j] == '-') {
			j++
		}
		if j >= n || !isDigit(s[j]) || n-j > 6 {
			return nil, false
		}
		e, err := strconv.Atoi(s[i+1:])
		if err != nil {
			return nil, false
		}
		exp, i = e, n
	}
	if i != n || len(digits) > 200000 {
		return nil, false
	}
	exp -= scale // value = digits * 10^exp
	if exp > int(maxNumericExp) || exp < -int(maxNumericExp) {
		return nil, false
	}
	m, _ := new(big.Int).SetString(string(digits), 10)
	if neg {
		m.Neg(m)
	}
	if exp >= 0 {
		return m.Mul(m, new(big.Int).Exp(big.NewInt(10), big.NewInt(int64(exp)), nil)), true
	}
	q, r := new(big.Int).QuoRem(m, new(big.Int).Exp(big.NewInt(10), big.NewInt(int64(-exp)), nil), new(big.Int))
	if r.Sign() == 0 {
		return q, true
	}
	return fracString(m, int32(exp)), true
}

func isPlainInt(s string) bool {
	for i := 0; i < len(s); i++ {
		if (s[i] < '0' || s[i] > '9') && !(i == 0 && (s[i] == '-' || s[i] == '+') && len(s) > 1) {
			return false
		}
	}
	return true
}

func fracString(i *big.Int, exp int32) string {
	neg := i.Sign() < 0
	d := new(big.Int).Abs(i).String()
	n := int(-exp)
	for len(d) <= n {
		d = "0" + d
	}
	s := d[:len(d)-n] + "." + d[len(d)-n:]
	if neg {
		s = "-" + s
	}
	return s
}

// transcode converts a value of a pgtype-known type between wire formats.
func transcode(oid uint32, from, to int16, b []byte) ([]byte, error) {
	tmMu.Lock()
	defer tmMu.Unlock()
	t, ok := tm.TypeForOID(oid)
	if !ok {
		return nil, fmt.Errorf("no codec for oid %d", oid)
	}
	v, err := t.Codec.DecodeValue(tm, oid, from, b)
	if err != nil {
		return nil, err
	}
	return tm.Encode(oid, to, v, nil)
}

// decodeValue turns wire bytes into the stored Go value for type t. b == nil means NULL.
func decodeValue(t *Type, format int16, b []byte) (any, *pgErr) {
	if b == nil {
		return nil, nil
	}
	if format != 0 && format != 1 {
		return nil, errf("08P01", "unsupported format code: %d", format)
	}
	switch t.kind {
	case kText:
		if !utf8.Valid(b) {
			return nil, errf("22021", "invalid byte sequence for encoding \"UTF8\"")
		}
		if bytes.IndexByte(b, 0) >= 0 {
			return nil, errf("22021", "invalid byte sequence for encoding \"UTF8\": 0x00")
		}
		return string(b), nil
	case kBytea:
		if format == 1 {
			return append([]byte{}, b...), nil
		}
		return parseBytea(string(b))
	case kInt2, kInt4, kInt8:
		if format == 0 {
			return parseInt(t, string(b))
		}
		switch {
		case t.kind == kInt2 && len(b) == 2:
			return int64(int16(binary.BigEndian.Uint16(b))), nil
		case t.kind == kInt4 && len(b) == 4:
			return int64(int32(binary.BigEndian.Uint32(b))), nil
		case t.kind == kInt8 && len(b) == 8:
			return int64(binary.BigEndian.Uint64(b)), nil
		}
		return nil, errf("22P03", "incorrect binary data format for type %s (%d bytes)", t.Name, len(b))
	case kBool:
		if format == 0 {
			return parseBool(string(b))
		}
		if len(b) != 1 {
			return nil, errf("22P03", "incorrect binary data format for type boolean")
		}
		return b[0] != 0, nil
	case kNumeric:
		return decodeNumeric(format, b)
	case kJSON:
		if format == 1 && t.OID == 3802 {
			if len(b) < 1 || b[0] != 1 {
				return nil, errf("22P03", "unsupported jsonb version number")
			}
			b = b[1:]
		}
		if !json.Valid(b) {
			return nil, errf("22P02", "invalid input syntax for type json")
		}
		if t.OID == 3802 {
			// jsonb is stored decomposed: duplicate keys collapse (last wins), keys are ordered by length, then bytes
			if nb, ok := normalizeJSONB(b); ok {
				return nb, nil
			}
		}
		return append([]byte{}, b...), nil
	case kOpaque:
		out, err := transcode(t.OID, format, 1, b)
		if err != nil {
			if format == 0 {
				return nil, errf("22007", "invalid input syntax for type %s: %q", t.Name, string(b))
			}
			return nil, errf("22P03", "incorrect binary data format for type %s", t.Name)
		}
		return out, nil
	case kArray:
		if format == 1 {
			return decodeArrayBinary(t, b)
		}
		return decodeArrayText(t, string(b))
	case kVoid:
		return nil, nil
	}
	return nil, errf("XX000", "cannot decode type %s", t.Name)
}

func decodeArrayBinary(t *Type, b []byte) (any, *pgErr) {
	bad := errf("22P03", "incorrect binary array format")
	if len(b) < 12 {
		return nil, bad
	}
	ndim := int(int32(binary.BigEndian.Uint32(b)))
	b = b[12:]
	if ndim == 0 {
		return []any{}, nil
	}
	if ndim != 1 {
		return nil, &pgErr{Code: "0A000", Msg: "multidimensional arrays are not supported by simpg", Unsupported: true}
	}
	if len(b) < 8 {
		return nil, bad
	}
	n := int(int32(binary.BigEndian.Uint32(b)))
	b = b[8:]
	out := make([]any, 0, n)
	for i := 0; i < n; i++ {
		if len(b) < 4 {
			return nil, bad
		}
		l := int(int32(binary.BigEndian.Uint32(b)))
		b = b[4:]
		if l < 0 {
			out = append(out, nil)
			continue
		}
		if len(b) < l {
			return nil, bad
		}
		v, err := decodeValue(t.elem, 1, b[:l])
		if err != nil {
			return nil, err
		}
		out = append(out, v)
		b = b[l:]
	}
	return out, nil
}

func decodeArrayText(t *Type, s string) (any, *pgErr) {
	s = strings.TrimSpace(s)
	bad := errf("22P02", "malformed array literal: %q", s)
	if len(s) < 2 || s[0] != '{' || s[len(s)-1] != '}' {
		return nil, bad
	}
	s = s[1 : len(s)-1]
	out := []any{}
	if strings.TrimSpace(s) == "" {
		return out, nil
	}
	for i := 0; ; {
		for i < len(s) && s[i] == ' ' {
			i++
		}
		var el strings.Builder
		quoted := false
		if i < len(s) && s[i] == '"' {
			quoted = true
			i++
			for ; ; i++ {
				if i >= len(s) {
					return nil, bad
				}
				if s[i] == '\\' && i+1 < len(s) {
					i++
				} else if s[i] == '"' {
					i++
					break
				}
				el.WriteByte(s[i])
			}
		} else {
			for i < len(s) && s[i] != ',' {
				if s[i] == '{' {
					return nil, &pgErr{Code: "0A000", Msg: "multidimensional arrays are not supported by simpg", Unsupported: true}
				}
				if s[i] == '\\' && i+1 < len(s) {
					i++
				}
				el.WriteByte(s[i])
				i++
			}
		}
		txt := el.String()
		if !quoted {
			txt = strings.TrimSpace(txt)
		}
		if !quoted && strings.EqualFold(txt, "null") {
			out = append(out, nil)
		} else {
			v, err := decodeValue(t.elem, 0, []byte(txt))
			if err != nil {
				return nil, err
			}
			out = append(out, v)
		}
		for i < len(s) && s[i] == ' ' {
			i++
		}
		if i >= len(s) {
			return out, nil
		}
		if s[i] != ',' {
			return nil, bad
		}
		i++
	}
}

// textRepr renders a stored value the way Postgres prints it in text format.
func textRepr(t *Type, v any) string {
	switch x := v.(type) {
	case nil:
		return "null"
	case string:
		return x
	case unk:
		return string(x)
	case int64:
		return strconv.FormatInt(x, 10)
	case *big.Int:
		return x.String()
	case bool:
		if x {
			return "t"
		}
		return "f"
	case []byte:
		if t != nil && t.kind == kJSON {
			return string(x)
		}
		if t != nil && t.kind == kOpaque {
			if out, err := transcode(t.OID, 1, 0, x); err == nil {
				return string(out)
			}
		}
		return `\x` + hex.EncodeToString(x)
	case []any:
		parts := make([]string, len(x))
		for i, e := range x {
			var et *Type
			if t != nil {
				et = t.elem
			}
			if e == nil {
				parts[i] = "NULL"
			} else if s := textRepr(et, e); s == "" || strings.ContainsAny(s, `{},"\ `) || strings.EqualFold(s, "null") {
				parts[i] = `"` + strings.NewReplacer(`\`, `\\`, `"`, `\"`).Replace(s) + `"`
			} else {
				parts[i] = s
			}
		}
		return "{" + strings.Join(parts, ",") + "}"
	case rowVal:
		parts := make([]string, len(x))
		for i, e := range x {
			if e != nil {
				parts[i] = textRepr(nil, e)
			}
		}
		return "(" + strings.Join(parts, ",") + ")"
	}
	return fmt.Sprint(v)
}

// encodeValue renders a non-NULL stored value for the wire in the given format, as a value of type t.
func encodeValue(t *Type, format int16, v any) ([]byte, *pgErr) {
	if format == 0 || t == nil {
		return []byte(textRepr(t, v)), nil
	}
	switch t.kind {
	case kText, kVoid:
		return []byte(textRepr(t, v)), nil
	case kBytea:
		if b, ok := v.([]byte); ok {
			return b, nil
		}
	case kBool:
		if b, ok := v.(bool); ok {
			if b {
				return []byte{1}, nil
			}
			return []byte{0}, nil
		}
	case kInt2, kInt4, kInt8:
		var i int64
		switch x := v.(type) {
		case int64:
			i = x
		case *big.Int:
			if !x.IsInt64() {
				return nil, errf("22003", "%s out of range", t.Name)
			}
			i = x.Int64()
		default:
			return nil, errf("XX000", "cannot encode %T as %s", v, t.Name)
		}
		if e := intInRange(t, i); e != nil {
			return nil, e
		}
		switch t.kind {
		case kInt2:
			return binary.BigEndian.AppendUint16(nil, uint16(i)), nil
		case kInt4:
			return binary.BigEndian.AppendUint32(nil, uint32(i)), nil
		}
		return binary.BigEndian.AppendUint64(nil, uint64(i)), nil
	case kNumeric:
		var n pgtype.Numeric
		switch x := v.(type) {
		case int64:
			n = pgtype.Numeric{Int: big.NewInt(x), Valid: true}
		case *big.Int:
			n = pgtype.Numeric{Int: x, Valid: true}
		case string:
			if err := n.Scan(x); err != nil {
				return nil, errf("XX000", "cannot encode numeric %q: %v", x, err)
			}
		default:
			return nil, errf("XX000", "cannot encode %T as numeric", v)
		}
		tmMu.Lock()
		out, err := tm.Encode(1700, 1, n, nil)
		tmMu.Unlock()
		if err != nil {
			return nil, errf("XX000", "cannot encode numeric: %v", err)
		}
		return out, nil
	case kJSON:
		if b, ok := v.([]byte); ok {
			if t.OID == 3802 {
				return append([]byte{1}, b...), nil
			}
			return b, nil
		}
	case kOpaque:
		if b, ok := v.([]byte); ok {
			return b, nil
		}
	case kArray:
		if a, ok := v.([]any); ok {
			out := binary.BigEndian.AppendUint32(nil, 1)
			hasNull := uint32(0)
			for _, e := range a {
				if e == nil {
					hasNull = 1
				}
			}
			if len(a) == 0 {
				out = binary.BigEndian.AppendUint32(out[:0], 0)
			}
			out = binary.BigEndian.AppendUint32(out, hasNull)
			out = binary.BigEndian.AppendUint32(out, t.elem.OID)
			if len(a) == 0 {
				return out, nil
			}
			out = binary.BigEndian.AppendUint32(out, uint32(len(a)))
			out = binary.BigEndian.AppendUint32(out, 1)
			for _, e := range a {
				if e == nil {
					out = binary.BigEndian.AppendUint32(out, 0xffffffff)
					continue
				}
				eb, err := encodeValue(t.elem, 1, e)
				if err != nil {
					return nil, err
				}
				out = binary.BigEndian.AppendUint32(out, uint32(len(eb)))
				out = append(out, eb...)
			}
			return out, nil
		}
	}
	return nil, errf("XX000", "cannot encode %T as %s in binary", v, t.Name)
}

// coerceUnk gives an unknown-typed literal the Go type of the value it is compared with.
func coerceUnk(u unk, like any) (any, *pgErr) {
	switch like.(type) {
	case int64, *big.Int:
		v, err := decodeNumeric(0, []byte(u))
		if err != nil {
			return nil, err
		}
		if b, ok := v.(*big.Int); ok && b.IsInt64() {
			return b.Int64(), nil
		}
		return v, nil
	case []byte:
		return parseBytea(string(u))
	case bool:
		return parseBool(string(u))
	}
	return string(u), nil
}

// compareVals orders two non-NULL values. Text uses byte order ("C" collation).
func compareVals(a, b any) (int, *pgErr) {
	if u, ok := a.(unk); ok {
		if u2, ok := b.(unk); ok {
			return strings.Compare(string(u), string(u2)), nil
		}
		v, err := coerceUnk(u, b)
		if err != nil {
			return 0, err
		}
		a = v
	} else if u, ok := b.(unk); ok {
		v, err := coerceUnk(u, a)
		if err != nil {
			return 0, err
		}
		b = v
	}
	switch x := a.(type) {
	case int64:
		switch y := b.(type) {
		case int64:
			switch {
			case x < y:
				return -1, nil
			case x > y:
				return 1, nil
			}
			return 0, nil
		case *big.Int:
			return big.NewInt(x).Cmp(y), nil
		}
	case *big.Int:
		switch y := b.(type) {
		case int64:
			return x.Cmp(big.NewInt(y)), nil
		case *big.Int:
			return x.Cmp(y), nil
		}
	case string:
		if y, ok := b.(string); ok {
			return strings.Compare(x, y), nil
		}
	case []byte:
		if y, ok := b.([]byte); ok {
			return bytes.Compare(x, y), nil
		}
	case bool:
		if y, ok := b.(bool); ok {
			switch {
			case x == y:
				return 0, nil
			case !x:
				return -1, nil
			}
			return 1, nil
		}
	}
	return 0, errf("42883", "operator does not exist: cannot compare %s with %s", goTypeName(a), goTypeName(b))
}

func goTypeName(v any) string {
	switch v.(type) {
	case int64:
		return "integer"
	case *big.Int:
		return "numeric"
	case string:
		return "text"
	case []byte:
		return "bytea"
	case bool:
		return "boolean"
	case []any:
		return "array"
	case rowVal:
		return "record"
	}
	return fmt.Sprintf("%T", v)
}

// appendKey appends a canonical, self-delimiting encoding of v (used for unique checks and DISTINCT).
func appendKey(buf []byte, v any) []byte {
	var tag byte
	var body string
	switch x := v.(type) {
	case nil:
		return append(buf, 'z')
	case int64:
		tag, body = 'n', strconv.FormatInt(x, 10)
	case *big.Int:
		tag, body = 'n', x.String()
	case string:
		tag, body = 's', x
	case unk:
		tag, body = 's', string(x)
	case []byte:
		tag, body = 'b', string(x)
	case bool:
		tag, body = 'o', strconv.FormatBool(x)
	default:
		tag, body = 'x', textRepr(nil, v)
	}
	buf = append(buf, tag)
	buf = binary.BigEndian.AppendUint32(buf, uint32(len(body)))
	return append(buf, body...)
}

func cloneVal(v any) any {
	switch x := v.(type) {
	case []byte:
		return append([]byte{}, x...)
	case *big.Int:
		return new(big.Int).Set(x)
	case []any:
		out := make([]any, len(x))
		for i := range x {
			out[i] = cloneVal(x[i])
		}
		return out
	}
	return v
}

// coerceAssign converts an evaluated expression value to what a column of type t stores.
func coerceAssign(t *Type, col string, v any) (any, *pgErr) {
	if v == nil {
		return nil, nil
	}
	if u, ok := v.(unk); ok {
		return decodeValue(t, 0, []byte(u))
	}
	mismatch := func() (any, *pgErr) {
		return nil, errf("42804", "column %q is of type %s but expression is of type %s", col, t.Name, goTypeName(v))
	}
	switch t.kind {
	case kText:
		if s, ok := v.(string); ok {
			return decodeValue(t, 0, []byte(s))
		}
	case kBytea:
		if b, ok := v.([]byte); ok {
			return b, nil
		}
	case kBool:
		if b, ok := v.(bool); ok {
			return b, nil
		}
	case kInt2, kInt4, kInt8:
		switch x := v.(type) {
		case int64:
			if e := intInRange(t, x); e != nil {
				return nil, e
			}
			return x, nil
		case *big.Int:
			if !x.IsInt64() {
				return nil, errf("22003", "%s out of range", t.Name)
			}
			if e := intInRange(t, x.Int64()); e != nil {
				return nil, e
			}
			return x.Int64(), nil
		}
	case kNumeric:
		switch x := v.(type) {
		case int64:
			return big.NewInt(x), nil
		case *big.Int:
			return x, nil
		case string: // non-integral numeric carried as text
			return x, nil
		}
	case kJSON, kOpaque:
		if b, ok := v.([]byte); ok {
			return b, nil
		}
	case kArray:
		if a, ok := v.([]any); ok {
			return a, nil
		}
	}
	return mismatch()
}

// udtName is the internal (pg_type.typname) spelling of a type.
func udtName(t *Type) string {
	switch t.OID {
	case 21:
		return "int2"
	case 23:
		return "int4"
	case 20:
		return "int8"
	case 16:
		return "bool"
	case 1043:
		return "varchar"
	case 1042:
		return "bpchar"
	case 1184:
		return "timestamptz"
	case 1114:
		return "timestamp"
	case 701:
		return "float8"
	case 700:
		return "float4"
	}
	if t.kind == kArray {
		return "_" + udtName(t.elem)
	}
	return t.Name
}
