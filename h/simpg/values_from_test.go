package simpg

import (
	"context"
	"testing"
)

// select <func>(const, col) from (values (…), (…)) as t(col): the batching form of a per-row statement.
func TestValuesInFrom(t *testing.T) {
	s := NewServer()
	ctx := context.Background()
	pool, err := s.NewPool(ctx)
	if err != nil {
		t.Fatal(err)
	}
	defer pool.Close()
	if _, err := pool.Exec(ctx, `select pg_notify('ch-1', p) from (values ('a,1'), ('it''s'), ('a,1')) as t(p)`); err != nil {
		t.Fatal(err)
	}
	n := s.Notifications()
	if len(n) != 2 || n[0].Channel != "ch-1" || n[0].Payload != "a,1" || n[1].Payload != "it's" {
		t.Fatalf("notifications: %+v", n)
	}
	rows, err := pool.Query(ctx, `select x, y from (values (1, 'one'), (2, 'two')) as v(x, y) where x > 1`)
	if err != nil {
		t.Fatal(err)
	}
	var got int
	for rows.Next() {
		var x int64
		var y string
		if err := rows.Scan(&x, &y); err != nil {
			t.Fatal(err)
		}
		if x != 2 || y != "two" {
			t.Fatalf("row %d %q", x, y)
		}
		got++
	}
	if rows.Err() != nil || got != 1 {
		t.Fatalf("rows %d err %v", got, rows.Err())
	}
	if u := s.Unsupported(); len(u) > 0 {
		t.Fatalf("unsupported: %v", u)
	}
}
