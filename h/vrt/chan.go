package vrt

import (
	"fmt"
	"reflect"
	"sort"
	"time"
	"unsafe"
)

// ---- channel model --------------------------------------------------------
//
// The real channel value is only used for its identity and capacity; every
// value travels through the model, so blocking is visible to the scheduler.

type waiter struct {
	t     *Thread
	val   any
	done  bool // receiver: value delivered / sender: value taken
	ok    bool
	selIx int
	sel   *selWait
}

type chanState struct {
	cap    int
	buf    []any
	closed bool
	sendq  []*waiter
	recvq  []*waiter
	tok    int // race token
	keep   any // the real channel: pinned for the world's lifetime, so that its address (the key of World.chans) cannot be reused by a later make(chan) after the garbage collector freed it
}

type selWait struct {
	fired bool
	ix    int
	val   any
	ok    bool
}

//go:norace
func (w *World) chanOf(ch any) *chanState {
	v := reflect.ValueOf(ch)
	p := v.Pointer()
	for i := range w.chans {
		if w.chans[i].p == p {
			return w.chans[i].st
		}
	}
	st := &chanState{cap: v.Cap(), keep: ch}
	w.chans = append(w.chans, chanEntry{p, st})
	return st
}

type chanEntry struct {
	p  uintptr
	st *chanState
}

//go:norace
func dropWaiter(q []*waiter, x *waiter) []*waiter {
	for i, y := range q {
		if y == x {
			return append(q[:i:i], q[i+1:]...)
		}
	}
	return q
}

// liveRecv returns the first receiver in the queue whose select (if any) has not fired yet.
//
//go:norace
func (st *chanState) liveRecv() *waiter {
	for len(st.recvq) > 0 {
		r := st.recvq[0]
		if r.sel != nil && r.sel.fired {
			st.recvq = st.recvq[1:]
			continue
		}
		return r
	}
	return nil
}

//go:norace
func (st *chanState) liveSend() *waiter {
	for len(st.sendq) > 0 {
		s := st.sendq[0]
		if s.sel != nil && s.sel.fired {
			st.sendq = st.sendq[1:]
			continue
		}
		return s
	}
	return nil
}

//go:norace
func (st *chanState) trySend(v any) (ok bool, panicClosed bool) {
	if st.closed {
		return false, true
	}
	if r := st.liveRecv(); r != nil {
		st.recvq = st.recvq[1:]
		r.val, r.ok, r.done = v, true, true
		if r.sel != nil {
			r.sel.fired, r.sel.ix, r.sel.val, r.sel.ok = true, r.selIx, v, true
		}
		return true, false
	}
	if len(st.buf) < st.cap {
		st.buf = append(st.buf, v)
		return true, false
	}
	return false, false
}

//go:norace
func (st *chanState) tryRecv() (v any, ok bool, got bool) {
	if len(st.buf) > 0 {
		v = st.buf[0]
		st.buf = st.buf[1:]
		// a blocked sender can now move into the buffer
		if s := st.liveSend(); s != nil {
			st.sendq = st.sendq[1:]
			st.buf = append(st.buf, s.val)
			s.done = true
			if s.sel != nil {
				s.sel.fired, s.sel.ix = true, s.selIx
			}
		}
		return v, true, true
	}
	if s := st.liveSend(); s != nil {
		st.sendq = st.sendq[1:]
		s.done = true
		if s.sel != nil {
			s.sel.fired, s.sel.ix = true, s.selIx
		}
		return s.val, true, true
	}
	if st.closed {
		return nil, false, true
	}
	return nil, false, false
}

// chanTok returns the race token of a channel (nil for a nil channel or outside a world).
//
//go:norace
func chanTok(ch any) *int {
	w := W()
	if w == nil {
		return nil
	}
	if isNilChan(ch) {
		return nil
	}
	return &w.chanOf(ch).tok
}

// happens-before discipline of the channel model (the detector cannot see the model):
// every operation RELEASES (merging) the channel token before it can have any effect and
// ACQUIRES it after it completed — send→receive, close→receive and, for unbuffered
// channels, receive→send-completion edges all follow (slightly more than buffered channels give).
//
//go:norace
func chanPre(tok *int) {
	if tok != nil {
		raceReleaseMerge(tok)
	}
}

//go:norace
func chanPost(tok *int) {
	if tok != nil {
		raceAcquire(tok)
	}
}

// Send models `ch <- v`.
//
//go:norace
func Send[C ~chan T | ~chan<- T, T any](ch C, v T) {
	w := W()
	if w == nil {
		reflect.ValueOf(ch).Send(reflect.ValueOf(&v).Elem())
		return
	}
	tok := chanTok(ch)
	chanPre(tok)
	sendModel(w, ch, v)
	chanPost(tok)
}

//go:norace
func sendModel(w *World, ch any, v any) {
	if w.closing {
		return
	}
	if isNilChan(ch) {
		w.PointC("send:nil", false, Never)
		return
	}
	st := w.chanOf(ch)
	w.Point("send", false, nil)
	if w.closing {
		return
	}
	ok, pc := st.trySend(v)
	if pc {
		panic("send on closed channel")
	}
	if ok {
		w.epoch++
		return
	}
	me := &waiter{t: w.cur, val: v}
	st.sendq = append(st.sendq, me)
	w.PointC("send:wait", false, waiterCond{me, st})
	if w.closing {
		return
	}
	if !me.done {
		st.sendq = dropWaiter(st.sendq, me)
		panic("send on closed channel")
	}
}

//go:norace
func isNilChan(ch any) bool { return reflect.ValueOf(ch).IsNil() }

//go:norace
func recvAny(w *World, ch any, label string) (any, bool) {
	if w.closing {
		return nil, false
	}
	if isNilChan(ch) {
		w.PointC(label+":nil", false, Never)
		return nil, false
	}
	st := w.chanOf(ch)
	w.Point(label, false, nil)
	if w.closing {
		return nil, false
	}
	if v, ok, got := st.tryRecv(); got {
		return v, ok
	}
	me := &waiter{t: w.cur}
	st.recvq = append(st.recvq, me)
	w.PointC(label+":wait", false, waiterCond{me, st})
	if w.closing {
		return nil, false
	}
	if me.done {
		return me.val, me.ok
	}
	st.recvq = dropWaiter(st.recvq, me)
	return nil, false
}

// Recv2 models `v, ok := <-ch`.
//
//go:norace
func Recv2[C ~chan T | ~<-chan T, T any](ch C) (T, bool) {
	w := W()
	var zero T
	if w == nil {
		v, ok := reflect.ValueOf(ch).Recv()
		if !ok {
			return zero, false
		}
		return v.Interface().(T), true
	}
	tok := chanTok(ch)
	chanPre(tok)
	v, ok := recvAny(w, ch, "recv")
	chanPost(tok)
	if !ok || v == nil {
		return zero, ok
	}
	return v.(T), ok
}

// Recv models `<-ch`.
//
//go:norace
func Recv[C ~chan T | ~<-chan T, T any](ch C) T {
	v, _ := Recv2[C, T](ch)
	return v
}

// Close models close(ch).
//
//go:norace
func Close[C ~chan T | ~chan<- T, T any](ch C) {
	w := W()
	if w == nil {
		reflect.ValueOf(ch).Close()
		return
	}
	tok := chanTok(ch)
	chanPre(tok)
	closeModel(w, ch)
}

//go:norace
func closeModel(w *World, ch any) {
	if w.closing {
		return
	}
	if isNilChan(ch) {
		panic("close of nil channel")
	}
	st := w.chanOf(ch)
	w.Point("close", false, nil)
	if w.closing {
		return
	}
	if st.closed {
		panic("close of closed channel")
	}
	st.closed = true
	w.epoch++
}

// ---- select -----------------------------------------------------------------

type SelCase interface {
	token() *int
	ready(w *World) bool
	fire(w *World)
	enqueue(w *World, sw *selWait, ix int)
	dequeue(w *World)
	deliver(sw *selWait)
}

type RecvCase[T any] struct {
	ch  any
	val T
	ok  bool
	me  *waiter
}

//go:norace
func NewRecvCase[C ~chan T | ~<-chan T, T any](ch C) *RecvCase[T] { return &RecvCase[T]{ch: ch} }

//go:norace
func (c *RecvCase[T]) Value() (T, bool) { return c.val, c.ok }

//go:norace
func (c *RecvCase[T]) token() *int { return chanTok(c.ch) }

//go:norace
func (c *RecvCase[T]) ready(w *World) bool {
	if isNilChan(c.ch) {
		return false
	}
	st := w.chanOf(c.ch)
	return len(st.buf) > 0 || st.liveSend() != nil || st.closed
}

//go:norace
func (c *RecvCase[T]) fire(w *World) {
	v, ok, _ := w.chanOf(c.ch).tryRecv()
	c.ok = ok
	if v != nil {
		c.val = v.(T)
	}
}

//go:norace
func (c *RecvCase[T]) enqueue(w *World, sw *selWait, ix int) {
	if isNilChan(c.ch) {
		return
	}
	st := w.chanOf(c.ch)
	c.me = &waiter{t: w.cur, sel: sw, selIx: ix}
	st.recvq = append(st.recvq, c.me)
}

//go:norace
func (c *RecvCase[T]) dequeue(w *World) {
	if c.me != nil {
		st := w.chanOf(c.ch)
		st.recvq = dropWaiter(st.recvq, c.me)
	}
}

//go:norace
func (c *RecvCase[T]) deliver(sw *selWait) {
	c.ok = sw.ok
	if sw.val != nil {
		c.val = sw.val.(T)
	}
}

type SendCase[T any] struct {
	ch  any
	val T
	me  *waiter
}

//go:norace
func NewSendCase[C ~chan T | ~chan<- T, T any](ch C, v T) *SendCase[T] {
	return &SendCase[T]{ch: ch, val: v}
}

//go:norace
func (c *SendCase[T]) token() *int { return chanTok(c.ch) }

//go:norace
func (c *SendCase[T]) ready(w *World) bool {
	if isNilChan(c.ch) {
		return false
	}
	st := w.chanOf(c.ch)
	return st.closed || st.liveRecv() != nil || len(st.buf) < st.cap
}

//go:norace
func (c *SendCase[T]) fire(w *World) {
	_, pc := w.chanOf(c.ch).trySend(c.val)
	if pc {
		panic("send on closed channel")
	}
}

//go:norace
func (c *SendCase[T]) enqueue(w *World, sw *selWait, ix int) {
	if isNilChan(c.ch) {
		return
	}
	st := w.chanOf(c.ch)
	c.me = &waiter{t: w.cur, val: c.val, sel: sw, selIx: ix}
	st.sendq = append(st.sendq, c.me)
}

//go:norace
func (c *SendCase[T]) dequeue(w *World) {
	if c.me != nil {
		st := w.chanOf(c.ch)
		st.sendq = dropWaiter(st.sendq, c.me)
	}
}

//go:norace
func (c *SendCase[T]) deliver(sw *selWait) {}

// Select models a select statement. Returns the index of the chosen case, or -1 for default.
//
//go:norace
func Select(hasDefault bool, cases ...SelCase) int {
	w := W()
	if w == nil {
		panic("vrt.Select in pass-through mode is not supported")
	}
	for _, c := range cases {
		chanPre(c.token())
	}
	i := selectModel(w, hasDefault, cases)
	if i >= 0 {
		chanPost(cases[i].token())
	}
	return i
}

//go:norace
func selectModel(w *World, hasDefault bool, cases []SelCase) int {
	if w.closing {
		// teardown: behave as if every channel were closed
		if len(cases) > 0 {
			return 0
		}
		return -1
	}
	w.Point("select", false, nil)
	if w.closing {
		if len(cases) > 0 {
			return 0
		}
		return -1
	}
	var rdy []int
	for i, c := range cases {
		if c.ready(w) {
			rdy = append(rdy, i)
		}
	}
	if len(rdy) > 0 {
		k := 0
		if len(rdy) > 1 {
			k = w.ChooseEnv(len(rdy), KFree, "select-tie")
		}
		cases[rdy[k]].fire(w)
		return rdy[k]
	}
	if hasDefault {
		return -1
	}
	sw := &selWait{}
	for i, c := range cases {
		c.enqueue(w, sw, i)
	}
	w.PointC("select:wait", false, selCond{w, sw, cases})
	if w.closing {
		for _, c := range cases {
			c.dequeue(w)
		}
		if len(cases) > 0 {
			return 0
		}
		return -1
	}
	if sw.fired {
		for _, c := range cases {
			c.dequeue(w)
		}
		cases[sw.ix].deliver(sw)
		return sw.ix
	}
	for _, c := range cases {
		c.dequeue(w)
	}
	for i, c := range cases {
		if c.ready(w) {
			c.fire(w)
			return i
		}
	}
	panic("vrt.Select: woken without a ready case")
}

// ---- time ---------------------------------------------------------------------

// Sleep models time.Sleep inside a polling loop: the sleeper is disabled until
// something really changed (World.Bump) or time advances because nothing else
// can run — re-polling an unchanged world would only repeat the same step.
//
//go:norace
func Sleep(d time.Duration) {
	w := W()
	if w == nil {
		time.Sleep(d)
		return
	}
	if w.closing {
		return
	}
	t := w.cur
	t.sleeps++
	t.asleep, t.timeWake = true, false
	ep := w.epoch
	w.PointC("sleep", false, sleepCond{w, t, ep})
	t.asleep = false
}

// Ticker models time.Ticker; ticks are delivered by the harness (World.Tick).
type Ticker struct {
	C       chan time.Time
	stopped bool
}

//go:norace
func NewTicker(d time.Duration) *Ticker {
	t := &Ticker{C: make(chan time.Time, 1)}
	if w := W(); w != nil {
		raceDisable()
		w.tickers = append(w.tickers, t)
		raceEnable()
		return t
	}
	// pass-through: a real ticker feeding C
	rt := time.NewTicker(d)
	go func() {
		for x := range rt.C {
			if t.stopped {
				rt.Stop()
				return
			}
			select {
			case t.C <- x:
			default:
			}
		}
	}()
	return t
}

//go:norace
func (t *Ticker) Stop() {
	raceDisable()
	t.stopped = true
	raceEnable()
}

//go:norace
func (t *Ticker) Reset(d time.Duration) {}

// Tickers lists the live tickers of the world.
//
//go:norace
func (w *World) Tickers() []*Ticker {
	var out []*Ticker
	for _, t := range w.tickers {
		if !t.stopped {
			out = append(out, t)
		}
	}
	return out
}

// Tick delivers one tick to ticker i (dropped when its buffer is full, like a real ticker).
//
//go:norace
func (w *World) Tick(t *Ticker) bool {
	chanPre(chanTok(t.C))
	if t.stopped || w.closing {
		return false
	}
	st := w.chanOf(t.C)
	ok, _ := st.trySend(time.Time{})
	if ok {
		w.epoch++
	}
	return ok
}

// TickerWaiters reports how many threads are blocked receiving from live tickers.
//
//go:norace
func (w *World) TickerWaiters() int {
	n := 0
	for _, t := range w.tickers {
		if !t.stopped {
			n += len(w.chanOf(t.C).recvq)
		}
	}
	return n
}

// MarkAsleepOnTickers marks threads blocked on a ticker receive as asleep (quiescent, not deadlocked).
//
//go:norace
func (w *World) tickerBlocked(t *Thread) bool {
	for _, tk := range w.tickers {
		for _, r := range w.chanOf(tk.C).recvq {
			if r.t == t {
				return true
			}
		}
	}
	return false
}

// ---- deterministic map iteration ---------------------------------------------------

// SortedKeys returns the keys of m in a deterministic order (reversed when World.MapRev).
//
//go:norace
func SortedKeys[M ~map[K]V, K comparable, V any](m M) []K {
	keys := make([]K, 0, len(m))
	for k := range m {
		keys = append(keys, k)
	}
	if len(keys) < 2 {
		return keys
	}
	strs := make(map[K]string, len(keys))
	for _, k := range keys {
		strs[k] = keyString(k)
	}
	w := W()
	rev := w != nil && w.MapRev
	sort.Slice(keys, func(i, j int) bool {
		if rev {
			return strs[keys[i]] > strs[keys[j]]
		}
		return strs[keys[i]] < strs[keys[j]]
	})
	return keys
}

//go:norace
func keyString(k any) string {
	switch v := k.(type) {
	case string:
		return v
	case uint64:
		return fmt.Sprintf("%020d", v)
	case int:
		return fmt.Sprintf("%020d", v)
	case int64:
		return fmt.Sprintf("%020d", v)
	}
	rv := reflect.ValueOf(k)
	if rv.Kind() == reflect.Struct {
		s := ""
		for i := 0; i < rv.NumField(); i++ {
			f := rv.Field(i)
			switch f.Kind() {
			case reflect.Uint, reflect.Uint64, reflect.Uint32, reflect.Uint16, reflect.Uint8:
				s += fmt.Sprintf("%020d|", f.Uint())
			case reflect.Int, reflect.Int64, reflect.Int32:
				s += fmt.Sprintf("%020d|", f.Int())
			case reflect.String:
				s += f.String() + "|"
			default:
				s += fmt.Sprintf("%v|", fieldIface(f))
			}
		}
		return s
	}
	return fmt.Sprintf("%v", k)
}

//go:norace
func fieldIface(f reflect.Value) any {
	if f.CanInterface() {
		return f.Interface()
	}
	if f.CanAddr() {
		return reflect.NewAt(f.Type(), unsafe.Pointer(f.UnsafeAddr())).Elem().Interface()
	}
	return f.String()
}

type waiterCond struct {
	me *waiter
	st *chanState
}

//go:norace
func (c waiterCond) Ready() bool { return c.me.done || c.st.closed }

type selCond struct {
	w     *World
	sw    *selWait
	cases []SelCase
}

//go:norace
func (c selCond) Ready() bool {
	if c.sw.fired {
		return true
	}
	for _, x := range c.cases {
		if x.ready(c.w) {
			return true
		}
	}
	return false
}

type sleepCond struct {
	w  *World
	t  *Thread
	ep int
}

//go:norace
func (c sleepCond) Ready() bool { return c.w.epoch != c.ep || c.t.timeWake }
