//go:build !race

package vrt

import "unsafe"

const RaceEnabled = false

func raceDisable()                      {}
func raceEnable()                       {}
func raceAcquire(p *int)                {}
func raceRelease(p *int)                {}
func raceReleaseMerge(p *int)           {}
func RaceErrors() int                   { return 0 }
func RaceAcquire(p unsafe.Pointer)      {}
func RaceRelease(p unsafe.Pointer)      {}
func RaceReleaseMerge(p unsafe.Pointer) {}
func RaceDisable()                      {}
func RaceEnable()                       {}
