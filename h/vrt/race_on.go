//go:build race

package vrt

import (
	"runtime"
	"unsafe"
)

const RaceEnabled = true

func raceDisable()                      { runtime.RaceDisable() }
func raceEnable()                       { runtime.RaceEnable() }
func raceAcquire(p *int)                { runtime.RaceAcquire(unsafe.Pointer(p)) }
func raceRelease(p *int)                { runtime.RaceRelease(unsafe.Pointer(p)) }
func raceReleaseMerge(p *int)           { runtime.RaceReleaseMerge(unsafe.Pointer(p)) }
func RaceErrors() int                   { return runtime.RaceErrors() }
func RaceAcquire(p unsafe.Pointer)      { runtime.RaceAcquire(p) }
func RaceRelease(p unsafe.Pointer)      { runtime.RaceRelease(p) }
func RaceReleaseMerge(p unsafe.Pointer) { runtime.RaceReleaseMerge(p) }
func RaceDisable()                      { runtime.RaceDisable() }
func RaceEnable()                       { runtime.RaceEnable() }
