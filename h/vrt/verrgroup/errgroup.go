// Package verrgroup replaces golang.org/x/sync/errgroup in instrumented copies:
// each Go is a controlled thread in the caller's group; Wait blocks visibly.
package verrgroup

import (
	"context"

	"golang.org/x/sync/errgroup"

	"verifh/vrt"
)

type Group struct {
	gen    uint32
	kids   []*vrt.Thread
	err    error
	cancel func(error)
	real   errgroup.Group
}

//go:norace
func WithContext(ctx context.Context) (*Group, context.Context) {
	ctx, cancel := context.WithCancelCause(ctx)
	return &Group{cancel: cancel}, ctx
}

type child struct {
	g *Group
	f func() error
}

//go:norace
func (c child) run() {
	err := c.f()
	if err != nil {
		c.g.fail(err)
	}
}

//go:norace
func (g *Group) fail(err error) {
	if g.err == nil {
		g.err = err
		if g.cancel != nil {
			g.cancel(g.err)
		}
	}
}

//go:norace
func (g *Group) Go(f func() error) {
	w := vrt.W()
	if w == nil {
		g.real.Go(f)
		return
	}
	if w.Closing() {
		return
	}
	if g.gen != w.Gen {
		g.gen, g.kids, g.err = w.Gen, nil, nil
	}
	t := w.GoInGroup(child{g, f}.run)
	g.kids = append(g.kids, t)
}

//go:norace
func (g *Group) waitModel(w *vrt.World) (kids []*vrt.Thread, err error) {
	if w.Closing() {
		return nil, g.err
	}
	kids = g.kids
	w.PointC("eg.wait", false, vrt.AllDone(kids))
	err = g.err
	if g.cancel != nil {
		g.cancel(g.err)
	}
	return kids, err
}

//go:norace
func (g *Group) Wait() error {
	w := vrt.W()
	if w == nil {
		return g.real.Wait()
	}
	kids, err := g.waitModel(w)
	for _, k := range kids {
		k.JoinAcquire() // every child's exit happens-before Wait returns
	}
	return err
}
