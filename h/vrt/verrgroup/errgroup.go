// Package verrgroup replaces golang.org/x/sync/errgroup in instrumented copies:
// each Go is a controlled thread in the caller's group; Wait blocks visibly.
package verrgroup

import (
	"context"
	"sync"

	"golang.org/x/sync/errgroup"

	"verifh/vrt"
)

type Group struct {
	gen    uint32
	kids   []*vrt.Thread
	err    error
	cancel func(error)
	real   errgroup.Group
	mu     sync.Mutex
}

func WithContext(ctx context.Context) (*Group, context.Context) {
	ctx, cancel := context.WithCancelCause(ctx)
	return &Group{cancel: cancel}, ctx
}

func (g *Group) Go(f func() error) {
	w := vrt.W()
	if w == nil {
		g.real.Go(f)
		return
	}
	if w.Closing() {
		return
	}
	if g.gen != w.Gen {
		g.gen, g.kids, g.err = w.Gen, nil, nil
	}
	t := w.GoInGroup(func() {
		if err := f(); err != nil {
			if g.err == nil {
				g.err = err
				if g.cancel != nil {
					g.cancel(g.err)
				}
			}
		}
	})
	g.kids = append(g.kids, t)
}

func (g *Group) Wait() error {
	w := vrt.W()
	if w == nil {
		return g.real.Wait()
	}
	if w.Closing() {
		return g.err
	}
	kids := g.kids
	w.Point("eg.wait", false, func() bool {
		for _, k := range kids {
			if !k.Done() {
				return false
			}
		}
		return true
	})
	for _, k := range kids {
		k.JoinAcquire()
	}
	if g.cancel != nil {
		g.cancel(g.err)
	}
	return g.err
}
