// Package vsync replaces package sync in instrumented copies of the code under
// test: same method sets, zero values usable, values copyable; every blocking
// operation is a scheduling point of the controlled runtime.
package vsync

import (
	"sync"
	"unsafe"

	"verifh/vrt"
)

// Locker, Pool, Map, Cond are passed through (not used by the pipeline).
type (
	Locker = sync.Locker
	Pool   = sync.Pool
	Map    = sync.Map
)

type Mutex struct {
	gen    uint32
	locked bool
	owner  int32
	real   sync.Mutex // pass-through mode
}

func (m *Mutex) fresh(w *vrt.World) {
	if m.gen != w.Gen {
		m.gen, m.locked = w.Gen, false
	}
}

func (m *Mutex) Lock() {
	w := vrt.W()
	if w == nil {
		m.real.Lock()
		return
	}
	if w.Closing() {
		return
	}
	m.fresh(w)
	if m.locked {
		vrt.CountContention()
	}
	w.Point("lock", false, func() bool { m.fresh(w); return !m.locked })
	if w.Closing() {
		return
	}
	m.locked = true
	m.owner = int32(w.Cur().ID)
	vrt.RaceAcquire(unsafe.Pointer(m))
}

func (m *Mutex) TryLock() bool {
	w := vrt.W()
	if w == nil {
		return m.real.TryLock()
	}
	if w.Closing() {
		return true
	}
	m.fresh(w)
	w.Point("trylock", false, nil)
	if m.locked {
		return false
	}
	m.locked = true
	vrt.RaceAcquire(unsafe.Pointer(m))
	return true
}

func (m *Mutex) Unlock() {
	w := vrt.W()
	if w == nil {
		m.real.Unlock()
		return
	}
	m.fresh(w)
	if !m.locked && !w.Closing() {
		panic("sync: unlock of unlocked mutex")
	}
	vrt.RaceRelease(unsafe.Pointer(m))
	m.locked = false
}

// RWMutex is modelled as a plain mutex for writers plus a reader count.
type RWMutex struct {
	gen     uint32
	writer  bool
	readers int
	real    sync.RWMutex
}

func (m *RWMutex) fresh(w *vrt.World) {
	if m.gen != w.Gen {
		m.gen, m.writer, m.readers = w.Gen, false, 0
	}
}
func (m *RWMutex) Lock() {
	w := vrt.W()
	if w == nil {
		m.real.Lock()
		return
	}
	if w.Closing() {
		return
	}
	m.fresh(w)
	w.Point("wlock", false, func() bool { m.fresh(w); return !m.writer && m.readers == 0 })
	if w.Closing() {
		return
	}
	m.writer = true
	vrt.RaceAcquire(unsafe.Pointer(m))
}
func (m *RWMutex) Unlock() {
	w := vrt.W()
	if w == nil {
		m.real.Unlock()
		return
	}
	vrt.RaceRelease(unsafe.Pointer(m))
	m.writer = false
}
func (m *RWMutex) RLock() {
	w := vrt.W()
	if w == nil {
		m.real.RLock()
		return
	}
	if w.Closing() {
		return
	}
	m.fresh(w)
	w.Point("rlock", false, func() bool { m.fresh(w); return !m.writer })
	if w.Closing() {
		return
	}
	m.readers++
	vrt.RaceAcquire(unsafe.Pointer(m))
}
func (m *RWMutex) RUnlock() {
	w := vrt.W()
	if w == nil {
		m.real.RUnlock()
		return
	}
	vrt.RaceReleaseMerge(unsafe.Pointer(m))
	if m.readers > 0 {
		m.readers--
	}
}
func (m *RWMutex) RLocker() sync.Locker { return (*rlocker)(m) }

type rlocker RWMutex

func (r *rlocker) Lock()   { (*RWMutex)(r).RLock() }
func (r *rlocker) Unlock() { (*RWMutex)(r).RUnlock() }

type WaitGroup struct {
	gen  uint32
	n    int
	real sync.WaitGroup
}

func (g *WaitGroup) fresh(w *vrt.World) {
	if g.gen != w.Gen {
		g.gen, g.n = w.Gen, 0
	}
}
func (g *WaitGroup) Add(d int) {
	w := vrt.W()
	if w == nil {
		g.real.Add(d)
		return
	}
	g.fresh(w)
	g.n += d
	if d < 0 {
		vrt.RaceReleaseMerge(unsafe.Pointer(g))
	}
	if g.n < 0 && !w.Closing() {
		panic("sync: negative WaitGroup counter")
	}
}
func (g *WaitGroup) Done() { g.Add(-1) }
func (g *WaitGroup) Wait() {
	w := vrt.W()
	if w == nil {
		g.real.Wait()
		return
	}
	if w.Closing() {
		return
	}
	g.fresh(w)
	w.Point("wg.wait", false, func() bool { g.fresh(w); return g.n <= 0 })
	vrt.RaceAcquire(unsafe.Pointer(g))
}

type Once struct {
	gen     uint32
	done    bool
	running bool
	real    sync.Once
}

func (o *Once) fresh(w *vrt.World) {
	if o.gen != w.Gen {
		o.gen, o.done, o.running = w.Gen, false, false
	}
}
func (o *Once) Do(f func()) {
	w := vrt.W()
	if w == nil {
		o.real.Do(f)
		return
	}
	if w.Closing() {
		return
	}
	o.fresh(w)
	w.Point("once", false, func() bool { o.fresh(w); return !o.running })
	if w.Closing() {
		return
	}
	if o.done {
		vrt.RaceAcquire(unsafe.Pointer(o))
		return
	}
	o.running = true
	defer func() {
		o.done, o.running = true, false
		vrt.RaceRelease(unsafe.Pointer(o))
	}()
	f()
}
