// Package vsync replaces package sync in instrumented copies of the code under
// test: same method sets, zero values usable, values copyable; every blocking
// operation is a scheduling point of the controlled runtime.
//
// Race mode: every function here is //go:norace (the model's own state is
// invisible to the detector); each primitive reports exactly the
// happens-before edges of the real primitive (RaceAcquire / RaceRelease on the
// object's address) and performs one REAL atomic operation on a field of the
// object, so that a plain copy or overwrite of the object racing with its use
// (copying a struct that embeds a mutex, `once = sync.Once{}`) is reported as
// it would be for the real type.
package vsync

import (
	"sync"
	"sync/atomic"
	"unsafe"

	"verifh/vrt"
)

// Locker, Pool, Map are passed through (not used by the pipeline).
type (
	Locker = sync.Locker
	Pool   = sync.Pool
	Map    = sync.Map
)

type Mutex struct {
	gen    uint32
	locked bool
	owner  int32
	touch  int32
	real   sync.Mutex // pass-through mode
}

//go:norace
func (m *Mutex) fresh(w *vrt.World) {
	if m.gen != w.Gen {
		m.gen, m.locked = w.Gen, false
	}
}

//go:norace
func (m *Mutex) Lock() {
	w := vrt.W()
	if w == nil {
		m.real.Lock()
		return
	}
	m.lock(w)
	atomic.AddInt32(&m.touch, 1)
	vrt.RaceAcquire(unsafe.Pointer(m))
}

//go:norace
func (m *Mutex) lock(w *vrt.World) {
	if w.Closing() {
		return
	}
	m.fresh(w)
	if m.locked {
		vrt.CountContention()
	}
	w.PointC("lock", false, mutexFree{m, w})
	if w.Closing() {
		return
	}
	m.locked = true
	m.owner = int32(w.Cur().ID)
}

//go:norace
func (m *Mutex) TryLock() bool {
	w := vrt.W()
	if w == nil {
		return m.real.TryLock()
	}
	ok := m.trylock(w)
	atomic.AddInt32(&m.touch, 1)
	if ok {
		vrt.RaceAcquire(unsafe.Pointer(m))
	}
	return ok
}

//go:norace
func (m *Mutex) trylock(w *vrt.World) bool {
	if w.Closing() {
		return true
	}
	m.fresh(w)
	w.Point("trylock", false, nil)
	if m.locked {
		return false
	}
	m.locked = true
	return true
}

//go:norace
func (m *Mutex) Unlock() {
	w := vrt.W()
	if w == nil {
		m.real.Unlock()
		return
	}
	atomic.AddInt32(&m.touch, 1)
	vrt.RaceRelease(unsafe.Pointer(m))
	m.fresh(w)
	if !m.locked && !w.Closing() {
		panic("sync: unlock of unlocked mutex")
	}
	m.locked = false
}

// RWMutex: writers exclusive, readers shared.
type RWMutex struct {
	gen     uint32
	writer  bool
	readers int
	touch   int32
	real    sync.RWMutex
}

//go:norace
func (m *RWMutex) fresh(w *vrt.World) {
	if m.gen != w.Gen {
		m.gen, m.writer, m.readers = w.Gen, false, 0
	}
}

//go:norace
func (m *RWMutex) Lock() {
	w := vrt.W()
	if w == nil {
		m.real.Lock()
		return
	}
	m.wlockModel(w)
	atomic.AddInt32(&m.touch, 1)
	vrt.RaceAcquire(unsafe.Pointer(m))
}

//go:norace
func (m *RWMutex) Unlock() {
	w := vrt.W()
	if w == nil {
		m.real.Unlock()
		return
	}
	atomic.AddInt32(&m.touch, 1)
	vrt.RaceRelease(unsafe.Pointer(m))
	m.writer = false
}

//go:norace
func (m *RWMutex) RLock() {
	w := vrt.W()
	if w == nil {
		m.real.RLock()
		return
	}
	m.rlockModel(w)
	atomic.AddInt32(&m.touch, 1)
	vrt.RaceAcquire(unsafe.Pointer(m))
}

//go:norace
func (m *RWMutex) RUnlock() {
	w := vrt.W()
	if w == nil {
		m.real.RUnlock()
		return
	}
	atomic.AddInt32(&m.touch, 1)
	vrt.RaceReleaseMerge(unsafe.Pointer(m))
	if m.readers > 0 {
		m.readers--
	}
}

//go:norace
func (m *RWMutex) RLocker() sync.Locker { return (*rlocker)(m) }

type rlocker RWMutex

//go:norace
func (r *rlocker) Lock() { (*RWMutex)(r).RLock() }

//go:norace
func (r *rlocker) Unlock() { (*RWMutex)(r).RUnlock() }

type WaitGroup struct {
	gen   uint32
	n     int
	touch int32
	real  sync.WaitGroup
}

//go:norace
func (g *WaitGroup) fresh(w *vrt.World) {
	if g.gen != w.Gen {
		g.gen, g.n = w.Gen, 0
	}
}

//go:norace
func (g *WaitGroup) Add(d int) {
	w := vrt.W()
	if w == nil {
		g.real.Add(d)
		return
	}
	atomic.AddInt32(&g.touch, 1)
	if d < 0 {
		vrt.RaceReleaseMerge(unsafe.Pointer(g))
	}
	g.fresh(w)
	g.n += d
	if g.n < 0 && !w.Closing() {
		panic("sync: negative WaitGroup counter")
	}
}

//go:norace
func (g *WaitGroup) Done() { g.Add(-1) }

//go:norace
func (g *WaitGroup) Wait() {
	w := vrt.W()
	if w == nil {
		g.real.Wait()
		return
	}
	g.waitModel(w)
	atomic.AddInt32(&g.touch, 1)
	vrt.RaceAcquire(unsafe.Pointer(g))
}

type Once struct {
	gen     uint32
	done    bool
	running bool
	touch   int32
	real    sync.Once
}

//go:norace
func (o *Once) fresh(w *vrt.World) {
	if o.gen != w.Gen {
		o.gen, o.done, o.running = w.Gen, false, false
	}
}

// begin returns true when the caller must run f.
//
//go:norace
func (o *Once) begin(w *vrt.World) (run bool) {
	if w.Closing() {
		return false
	}
	o.fresh(w)
	w.PointC("once", false, onceIdle{o, w})
	if w.Closing() || o.done {
		return false
	}
	o.running = true
	return true
}

//go:norace
func (o *Once) end() {
	o.done, o.running = true, false
}

//go:norace
func (o *Once) Do(f func()) {
	w := vrt.W()
	if w == nil {
		o.real.Do(f)
		return
	}
	atomic.AddInt32(&o.touch, 1) // sync.Once.Do starts with an atomic load of the object
	if !o.begin(w) {
		vrt.RaceAcquire(unsafe.Pointer(o))
		return
	}
	defer o.finish()
	f()
}

type mutexFree struct {
	m *Mutex
	w *vrt.World
}

//go:norace
func (c mutexFree) Ready() bool { c.m.fresh(c.w); return !c.m.locked }

type rwFree struct {
	m     *RWMutex
	w     *vrt.World
	write bool
}

//go:norace
func (c rwFree) Ready() bool {
	c.m.fresh(c.w)
	if c.write {
		return !c.m.writer && c.m.readers == 0
	}
	return !c.m.writer
}

type wgZero struct {
	g *WaitGroup
	w *vrt.World
}

//go:norace
func (c wgZero) Ready() bool { c.g.fresh(c.w); return c.g.n <= 0 }

type onceIdle struct {
	o *Once
	w *vrt.World
}

//go:norace
func (c onceIdle) Ready() bool { c.o.fresh(c.w); return !c.o.running }

//go:norace
func (m *RWMutex) wlockModel(w *vrt.World) {
	if w.Closing() {
		return
	}
	m.fresh(w)
	w.PointC("wlock", false, rwFree{m, w, true})
	if w.Closing() {
		return
	}
	m.writer = true
}

//go:norace
func (m *RWMutex) rlockModel(w *vrt.World) {
	if w.Closing() {
		return
	}
	m.fresh(w)
	w.PointC("rlock", false, rwFree{m, w, false})
	if w.Closing() {
		return
	}
	m.readers++
}

//go:norace
func (g *WaitGroup) waitModel(w *vrt.World) {
	if w.Closing() {
		return
	}
	g.fresh(w)
	w.PointC("wg.wait", false, wgZero{g, w})
}

//go:norace
func (o *Once) finish() {
	vrt.RaceRelease(unsafe.Pointer(o))
	o.end()
}
