// Package vrt is the controlled runtime: exactly one controlled thread runs at
// a time; every visible operation (lock, channel operation, wait, spawn, sleep,
// SQL batch, JSON-RPC round trip, environment event) is a scheduling point at
// which a Chooser (the explorer) decides which enabled thread continues.
//
// Threads are real goroutines; the baton is passed through per-thread wake
// channels. In -race builds the hand-offs are hidden from the race detector
// (runtime.RaceDisable) and the modelled primitives carry exactly the
// happens-before edges of the primitives they replace, so the detector judges
// each explored schedule as if it had happened for real.
package vrt

import (
	"fmt"
	"runtime"
	"runtime/debug"
	"sort"
	"strings"
	"sync"
	"time"
)

// Choice kinds (cost classes) of one alternative at a choice point.
const (
	KFree    = 0 // costs nothing
	KPreempt = 1 // switch to another group while the running group could continue
	KIntra   = 2 // switch inside the running group while the running thread could continue
	KFault   = 3 // inject a fault
	KEnv     = 4 // harness-level deviation (spurious wake-up, …)
	KOrder   = 5 // non-default order among the threads of one group when the running one blocked or ended
	NKinds   = 6
)

// Chooser decides every choice point. kinds[i] is the cost class of alternative i;
// alternative 0 is always free ("continue").
type Chooser interface {
	Choose(kinds []uint8, label string) int
}

type zeroChooser struct{}

func (zeroChooser) Choose([]uint8, string) int { return 0 }

// Thread is one controlled thread.
type Thread struct {
	ID    int
	Name  string
	Group int
	wake  chan struct{}
	done  bool
	// while parked at a point:
	en       func() bool // nil = enabled
	label    string
	idleWait bool // enabled only when nothing else is
	asleep   bool // parked in Sleep: quiescent, not deadlocked
	timeWake bool
	exited   chan struct{}
	ops      int // visible operations executed
	sleeps   int
	joinTok  int // address token for race annotations
	Panic    any
	PanicStk string
	// OnlyAt, when set, restricts PREEMPTIVE switches to this thread to scheduling points whose
	// label it accepts (a partial-order reduction: the thread's pending operation must commute
	// with every operation of other threads at the labels it rejects).
	OnlyAt func(label string) bool
}

// World is one execution.
type World struct {
	Gen     uint32
	ex      Chooser
	threads []*Thread
	cur     *Thread
	closing bool
	nextGrp int

	finished chan struct{}
	finOnce  sync.Once

	// results
	Deadlock    bool
	DeadlockMsg string
	Transitions int64
	Trace       []string // labels of executed points (when TraceOn)
	TraceOn     bool
	MaxAdvances int // how often time may advance (all sleepers wake) when nothing else can run
	advances    int
	epoch       int // bumped by every real state change (close/send/tick/commit/environment)
	MapRev      bool

	tickers []*Ticker
	chans   map[uintptr]*chanState

	StateKey func() uint64 // optional: harness part of the state key
	States   map[uint64]struct{}

	Panics []string // panics of controlled threads (code under test) outside teardown

	mu sync.Mutex // protects nothing during normal runs (one thread at a time); used in teardown
}

var (
	curWorld *World
	genCtr   uint32
)

// W returns the current world, or nil in pass-through mode.
func W() *World { return curWorld }

// NewWorld installs a fresh world. One world at a time per process.
func NewWorld(ex Chooser) *World {
	if ex == nil {
		ex = zeroChooser{}
	}
	genCtr++
	w := &World{Gen: genCtr, ex: ex, finished: make(chan struct{}), chans: map[uintptr]*chanState{}, MaxAdvances: 2}
	curWorld = w
	return w
}

func (w *World) Cur() *Thread   { return w.cur }
func (w *World) Closing() bool  { return w.closing }
func (w *World) Threads() []*Thread { return w.threads }

func (w *World) newThread(name string, group int) *Thread {
	t := &Thread{ID: len(w.threads), Name: name, Group: group, wake: make(chan struct{}, 1), exited: make(chan struct{})}
	w.threads = append(w.threads, t)
	return t
}

// Run executes body as thread 0 and returns when it has finished (or the world
// deadlocked). The caller must then call Close.
func (w *World) Run(body func()) {
	t := w.newThread("main", w.newGroup())
	w.cur = t
	w.start(t, body)
	t.wake <- struct{}{}
	<-w.finished
}

func (w *World) newGroup() int { w.nextGrp++; return w.nextGrp }

func (w *World) start(t *Thread, body func()) {
	go func() {
		defer close(t.exited)
		raceDisable()
		<-t.wake
		raceEnable()
		defer func() {
			if r := recover(); r != nil {
				if _, ok := r.(abortT); ok {
					w.exit(t)
					return
				}
				t.Panic = r
				t.PanicStk = string(debug.Stack())
				if !w.closing {
					w.Panics = append(w.Panics, fmt.Sprintf("thread %s: panic: %v\n%s", t.Name, r, trimStack(t.PanicStk)))
				}
			}
			w.exit(t)
		}()
		body()
	}()
}

func trimStack(s string) string {
	lines := strings.Split(s, "\n")
	var out []string
	for _, l := range lines {
		if strings.Contains(l, "indexsupply/shovel") || strings.Contains(l, "/repo/") || strings.Contains(l, "panic") {
			out = append(out, l)
		}
		if len(out) > 24 {
			break
		}
	}
	return strings.Join(out, "\n")
}

func (w *World) finish() { w.finOnce.Do(func() { close(w.finished) }) }

// exit is called when a thread body has returned.
func (w *World) exit(t *Thread) {
	t.done = true
	raceReleaseMerge(&t.joinTok)
	if w.closing {
		return
	}
	if t.ID == 0 {
		w.finish()
		return
	}
	if w.cur != t {
		// a thread that was not scheduled ended (cannot happen outside teardown)
		return
	}
	cands := w.candidates(t, false)
	if len(cands) == 0 && w.advanceTime() {
		cands = w.candidates(t, false)
	}
	if len(cands) == 0 {
		w.stuck(t)
		return
	}
	idx := 0
	if len(cands) > 1 {
		kinds := make([]uint8, len(cands)) // free: the running thread ended
		groupEn := false
		for i, c := range cands {
			if c.Group == t.Group && !c.idleWait {
				if groupEn {
					kinds[i] = KOrder
				}
				groupEn = true
			} else if groupEn && !c.idleWait {
				kinds[i] = KPreempt
			}
		}
		idx = w.ex.Choose(kinds, "exit:"+t.Name)
	}
	n := cands[idx]
	w.cur = n
	w.Transitions++
	raceDisable()
	n.wake <- struct{}{}
	raceEnable()
}

// Bump records a real state change: sleepers may observe something new.
func (w *World) Bump() { w.epoch++ }

// Advances reports how often time was advanced.
func (w *World) Advances() int { return w.advances }

// advanceTime wakes every sleeper ("time passes"); bounded by MaxAdvances.
func (w *World) advanceTime() bool {
	if w.advances >= w.MaxAdvances {
		return false
	}
	any := false
	for _, u := range w.threads {
		if !u.done && u.asleep {
			u.timeWake = true
			any = true
		}
	}
	if any {
		w.advances++
	}
	return any
}

// AdvanceTime lets the harness advance time explicitly (not counted against MaxAdvances).
func (w *World) AdvanceTime() {
	for _, u := range w.threads {
		if !u.done && u.asleep {
			u.timeWake = true
		}
	}
}

// stuck: no thread can run.
func (w *World) stuck(t *Thread) {
	var blocked []string
	for _, u := range w.threads {
		if !u.done && !w.passive(u) {
			blocked = append(blocked, fmt.Sprintf("%s@%s", u.Name, u.label))
		}
	}
	w.Deadlock = true
	w.DeadlockMsg = "no enabled thread; blocked: " + strings.Join(blocked, ", ")
	w.finish()
}

func (t *Thread) isEnabled() bool { return !t.done && (t.en == nil || t.en()) }

// candidates in canonical order: the running thread first (if enabled), then
// the other enabled threads of its group by id, then the rest by id. Idle
// waiters are candidates only when nothing else is.
func (w *World) candidates(t *Thread, includeSelf bool) []*Thread {
	var same, other, idle []*Thread
	for _, u := range w.threads {
		if u.done || (u == t && !includeSelf) {
			continue
		}
		if u.idleWait {
			idle = append(idle, u)
			continue
		}
		if !u.isEnabled() {
			continue
		}
		switch {
		case u == t:
		case u.Group == t.Group:
			same = append(same, u)
		default:
			other = append(other, u)
		}
	}
	var out []*Thread
	if includeSelf && !t.idleWait && t.isEnabled() {
		out = append(out, t)
	}
	out = append(out, same...)
	out = append(out, other...)
	if len(out) == 0 {
		out = idle
	}
	return out
}

// Point is a scheduling point of the running thread. en==nil: the pending
// operation can complete; otherwise the thread is disabled until en() holds.
// free: every switch at this point costs nothing (step boundaries).
func (w *World) Point(label string, free bool, en func() bool) {
	t := w.cur
	if w.closing {
		return
	}
	t.en, t.label = en, label
	t.ops++
	if w.TraceOn {
		w.Trace = append(w.Trace, fmt.Sprintf("%s:%s", t.Name, label))
	}
	w.noteState()
	cands := w.candidates(t, true)
	if len(cands) == 0 && w.advanceTime() {
		cands = w.candidates(t, true)
	}
	if len(cands) == 0 {
		w.stuck(t)
		w.park(t)
		return
	}
	idx := 0
	if len(cands) > 1 {
		selfEn := cands[0] == t
		groupEn := selfEn
		if !groupEn {
			for _, c := range cands {
				if c.Group == t.Group && !c.idleWait {
					groupEn = true
					break
				}
			}
		}
		kinds := make([]uint8, len(cands))
		const skip = 255
		nAlt := 0
		for i, c := range cands {
			switch {
			case i == 0 || free || c.idleWait:
				kinds[i] = KFree
			case c.Group == t.Group:
				if selfEn {
					kinds[i] = KIntra
				} else {
					kinds[i] = KOrder
				}
			default:
				if groupEn {
					kinds[i] = KPreempt
					if c.OnlyAt != nil && !c.OnlyAt(label) {
						kinds[i] = skip
					}
				}
			}
			if kinds[i] != skip {
				nAlt++
			}
		}
		if nAlt < len(cands) {
			var c2 []*Thread
			var k2 []uint8
			for i, c := range cands {
				if kinds[i] != skip {
					c2, k2 = append(c2, c), append(k2, kinds[i])
				}
			}
			cands, kinds = c2, k2
		}
		if len(cands) > 1 {
			idx = w.ex.Choose(kinds, t.Name+":"+label)
		}
	}
	n := cands[idx]
	w.Transitions++
	if n == t {
		t.en = nil
		return
	}
	w.cur = n
	raceDisable()
	n.wake <- struct{}{}
	raceEnable()
	w.park(t)
}

// park blocks the calling goroutine (the thread's own, or a nested helper
// acting for it) until the thread is scheduled again or the world closes.
func (w *World) park(t *Thread) {
	raceDisable()
	<-t.wake
	raceEnable()
	t.en = nil
	if w.closing && t.ID == 0 {
		panic(errAbort)
	}
}

type abortT struct{}

var errAbort = abortT{}

// ChooseFault asks the chooser whether to inject one of n fault kinds at the
// current I/O point. Returns 0 for none.
func (w *World) ChooseFault(n int, label string) int {
	if w.closing || n <= 0 {
		return 0
	}
	kinds := make([]uint8, n+1)
	for i := 1; i <= n; i++ {
		kinds[i] = KFault
	}
	return w.ex.Choose(kinds, "fault@"+label)
}

// ChooseEnv is a harness-level choice among n alternatives (alternative 0 free, others cost kind).
func (w *World) ChooseEnv(n int, kind uint8, label string) int {
	if w.closing || n <= 1 {
		return 0
	}
	kinds := make([]uint8, n)
	for i := 1; i < n; i++ {
		kinds[i] = kind
	}
	return w.ex.Choose(kinds, "env@"+label)
}

func (w *World) noteState() {
	if w.States == nil {
		return
	}
	if len(w.States) > 4_000_000 {
		return
	}
	h := uint64(1469598103934665603)
	mix := func(x uint64) { h ^= x; h *= 1099511628211 }
	for _, u := range w.threads {
		mix(uint64(u.ops)<<1 | b2u(u.done))
		for i := 0; i < len(u.label); i++ {
			mix(uint64(u.label[i]))
		}
	}
	if w.StateKey != nil {
		mix(w.StateKey())
	}
	w.States[h] = struct{}{}
}

func b2u(b bool) uint64 {
	if b {
		return 1
	}
	return 0
}

// Go starts a controlled thread in a new group (the `go` statement).
func Go(f func()) {
	w := curWorld
	if w == nil {
		go f()
		return
	}
	if w.closing {
		// teardown: run nothing new
		return
	}
	t := w.newThread(fmt.Sprintf("g%d", len(w.threads)), w.newGroup())
	w.start(t, f)
	w.Point("spawn", false, nil)
}

// GoNamed starts a named harness thread in a new group.
func (w *World) GoNamed(name string, f func()) *Thread {
	t := w.newThread(name, w.newGroup())
	w.start(t, f)
	return t
}

// GoInGroup starts a thread in the running thread's group (joinable child).
func (w *World) GoInGroup(f func()) *Thread {
	p := w.cur
	t := w.newThread(fmt.Sprintf("%s.%d", p.Name, len(w.threads)), p.Group)
	w.start(t, f)
	w.Point("spawn", false, nil)
	return t
}

func (t *Thread) Done() bool { return t.done }

// JoinAcquire establishes the happens-before edge from t's exit.
func (t *Thread) JoinAcquire() { raceAcquire(&t.joinTok) }

// Boundary is a step boundary of a harness script: all switches are free.
func Boundary(label string) {
	if w := curWorld; w != nil {
		w.Point("boundary:"+label, true, nil)
	}
}

// Yield is a plain scheduling point (environment operations, I/O).
func Yield(label string) {
	if w := curWorld; w != nil {
		w.Point(label, false, nil)
	}
}

// WaitIdle blocks the calling thread until no other thread can run.
func (w *World) WaitIdle() {
	if w.closing {
		return
	}
	t := w.cur
	t.idleWait = true
	w.Point("waitidle", true, nil)
	t.idleWait = false
}

// Join blocks until all given threads are done.
func (w *World) Join(ts ...*Thread) {
	w.Point("join", true, func() bool {
		for _, t := range ts {
			if !t.done {
				return false
			}
		}
		return true
	})
	for _, t := range ts {
		t.JoinAcquire()
	}
}

// passive: parked for good by design (sleeping / waiting for a tick), not deadlocked.
func (w *World) passive(u *Thread) bool { return u.asleep || w.tickerBlocked(u) }

// Quiescent reports whether every unfinished thread other than the caller is asleep.
func (w *World) Quiescent() bool {
	for _, u := range w.threads {
		if u != w.cur && !u.done && !w.passive(u) {
			return false
		}
	}
	return true
}

// Blocked lists unfinished threads (other than the caller) that are neither
// enabled nor asleep — i.e. waiting for something that may never come.
func (w *World) Blocked() []string {
	var out []string
	for _, u := range w.threads {
		if u != w.cur && !u.done && !w.passive(u) && !u.isEnabled() {
			out = append(out, u.Name+"@"+u.label)
		}
	}
	sort.Strings(out)
	return out
}

// Close tears the world down: every unfinished thread is released one at a
// time (newest first) with all shim operations non-blocking, so that it
// unwinds through its normal error paths. Returns an error text if a thread
// did not finish.
func (w *World) Close() string {
	w.closing = true
	var problems []string
	for i := len(w.threads) - 1; i >= 0; i-- {
		t := w.threads[i]
		select {
		case <-t.exited:
			continue
		default:
		}
		select {
		case t.wake <- struct{}{}:
		default:
		}
		select {
		case <-t.exited:
		case <-time.After(20 * time.Second):
			buf := make([]byte, 1<<16)
			n := runtime.Stack(buf, true)
			problems = append(problems, fmt.Sprintf("thread %s (at %s) did not unwind in teardown\n%s", t.Name, t.label, buf[:n]))
		}
	}
	if curWorld == w {
		curWorld = nil
	}
	return strings.Join(problems, "\n")
}

// Contentions counts Lock calls that found the mutex held (non-vacuity counter).
var Contentions int64

func CountContention() { Contentions++ }
