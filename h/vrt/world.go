// Package vrt is the controlled runtime: exactly one controlled thread runs at
// a time; every visible operation (lock, channel operation, wait, spawn, sleep,
// SQL batch, JSON-RPC round trip, environment event) is a scheduling point at
// which a Chooser (the explorer) decides which enabled thread continues.
//
// Threads are real goroutines; the baton is passed through per-thread wake
// channels. In -race builds the hand-offs are hidden from the race detector
// (runtime.RaceDisable) and the modelled primitives carry exactly the
// happens-before edges of the primitives they replace, so the detector judges
// each explored schedule as if it had happened for real.
package vrt

import (
	"fmt"
	"runtime"
	"runtime/debug"
	"sort"
	"strings"
	"sync"
	"time"
)

// Choice kinds (cost classes) of one alternative at a choice point.
const (
	KFree    = 0 // costs nothing
	KPreempt = 1 // switch to another group while the running group could continue
	KIntra   = 2 // switch inside the running group while the running thread could continue
	KFault   = 3 // inject a fault
	KEnv     = 4 // harness-level deviation (spurious wake-up, …)
	KOrder   = 5 // non-default order among the threads of one group when the running one blocked or ended
	NKinds   = 6
)

// Chooser decides every choice point. kinds[i] is the cost class of alternative i;
// alternative 0 is always free ("continue").
type Chooser interface {
	Choose(kinds []uint8, label string) int
}

type zeroChooser struct{}

//go:norace
func (zeroChooser) Choose([]uint8, string) int { return 0 }

// Thread is one controlled thread.
type Thread struct {
	ID    int
	Name  string
	Group int
	wake  chan struct{}
	done  bool
	// while parked at a point:
	en       Cond // nil = enabled
	label    string
	idleWait bool // enabled only when nothing else is
	asleep   bool // parked in Sleep: quiescent, not deadlocked
	timeWake bool
	exited   chan struct{}
	ops      int // visible operations executed
	sleeps   int
	joinTok  int // address token for race annotations
	Panic    any
	PanicStk string
	// OnlyAt, when set, restricts PREEMPTIVE switches to this thread to scheduling points whose
	// label it accepts (a partial-order reduction: the thread's pending operation must commute
	// with every operation of other threads at the labels it rejects).
	OnlyAt func(label string) bool
}

// World is one execution.
type World struct {
	Gen     uint32
	ex      Chooser
	threads []*Thread
	cur     *Thread
	closing bool
	nextGrp int

	finished chan struct{}
	finDone  bool

	// results
	Deadlock    bool
	DeadlockMsg string
	Transitions int64
	Trace       []string // labels of executed points (when TraceOn)
	TraceOn     bool
	NoPreempt   bool // while set, no switch away from a thread that can continue (scripted scenario prefixes)
	MaxAdvances int // how often time may advance (all sleepers wake) when nothing else can run
	advances    int
	epoch       int // bumped by every real state change (close/send/tick/commit/environment)
	MapRev      bool

	tickers []*Ticker
	chans   []chanEntry

	StateKey func() uint64 // optional: harness part of the state key
	States   *StateSet

	Panics []string // panics of controlled threads (code under test) outside teardown

	mu sync.Mutex // protects nothing during normal runs (one thread at a time); used in teardown
}

var (
	curWorld *World
	genCtr   uint32
)

// W returns the current world, or nil in pass-through mode.
//
//go:norace
func W() *World {
	return curWorld
}

// NewWorld installs a fresh world. One world at a time per process.
//
//go:norace
func NewWorld(ex Chooser) *World {
	if ex == nil {
		ex = zeroChooser{}
	}
	genCtr++
	w := &World{Gen: genCtr, ex: ex, finished: make(chan struct{}), MaxAdvances: 2}
	curWorld = w
	return w
}

//go:norace
func (w *World) Cur() *Thread {
	return w.cur
}

//go:norace
func (w *World) Closing() bool {
	return w.closing
}

//go:norace
func (w *World) Threads() []*Thread { return w.threads }

//go:norace
func (w *World) newThread(name string, group int) *Thread {
	t := &Thread{ID: len(w.threads), Name: name, Group: group, wake: make(chan struct{}, 1), exited: make(chan struct{})}
	w.threads = append(w.threads, t)
	return t
}

// Run executes body as thread 0 and returns when it has finished (or the world
// deadlocked). The caller must then call Close.
//
//go:norace
func (w *World) Run(body func()) {
	t := w.newThread("main", w.newGroup())
	w.cur = t
	w.start(t, body)
	t.wake <- struct{}{}
	<-w.finished
}

//go:norace
func (w *World) newGroup() int { w.nextGrp++; return w.nextGrp }

//go:norace
func (w *World) start(t *Thread, body func()) {
	go w.threadMain(t, body)
}

//go:norace
func (w *World) threadMain(t *Thread, body func()) {
	defer close(t.exited)
	raceDisable()
	<-t.wake
	raceEnable()
	defer w.threadEnd(t)
	body()
}

//go:norace
func (w *World) threadEnd(t *Thread) {
	r := recover()
	raceReleaseMerge(&t.joinTok)
	if r != nil {
		if _, ok := r.(abortT); ok {
			w.exit(t)
			return
		}
		t.Panic = r
		t.PanicStk = string(debug.Stack())
		if !w.closing {
			w.Panics = append(w.Panics, fmt.Sprintf("thread %s: panic: %v\n%s", t.Name, r, trimStack(t.PanicStk)))
		}
	}
	w.exit(t)
}

//go:norace
func trimStack(s string) string {
	lines := strings.Split(s, "\n")
	var out []string
	for _, l := range lines {
		if strings.Contains(l, "indexsupply/shovel") || strings.Contains(l, "/repo/") || strings.Contains(l, "panic") {
			out = append(out, l)
		}
		if len(out) > 24 {
			break
		}
	}
	return strings.Join(out, "\n")
}

//go:norace
func (w *World) finish() {
	if !w.finDone {
		w.finDone = true
		close(w.finished)
	}
}

// exit is called when a thread body has returned.
//
//go:norace
func (w *World) exit(t *Thread) {
	t.done = true
	if w.closing {
		return
	}
	if t.ID == 0 {
		w.finish()
		return
	}
	if w.cur != t {
		// a thread that was not scheduled ended (cannot happen outside teardown)
		return
	}
	cands := w.candidates(t, false)
	if len(cands) == 0 && w.advanceTime() {
		cands = w.candidates(t, false)
	}
	if len(cands) == 0 {
		w.stuck(t)
		return
	}
	idx := 0
	if len(cands) > 1 {
		kinds := make([]uint8, len(cands)) // free: the running thread ended
		groupEn := false
		for i, c := range cands {
			if c.Group == t.Group && !c.idleWait {
				if groupEn {
					kinds[i] = KOrder
				}
				groupEn = true
			} else if groupEn && !c.idleWait {
				kinds[i] = KPreempt
			}
		}
		idx = w.ex.Choose(kinds, "exit:"+t.Name)
	}
	n := cands[idx]
	w.cur = n
	w.Transitions++
	raceDisable()
	n.wake <- struct{}{}
	raceEnable()
}

// Bump records a real state change: sleepers may observe something new.
//
//go:norace
func (w *World) Bump() {
	raceDisable()
	w.epoch++
	raceEnable()
}

// Advances reports how often time was advanced.
//
//go:norace
func (w *World) Advances() int { return w.advances }

// advanceTime wakes every sleeper ("time passes"); bounded by MaxAdvances.
//
//go:norace
func (w *World) advanceTime() bool {
	if w.advances >= w.MaxAdvances {
		return false
	}
	any := false
	for _, u := range w.threads {
		if !u.done && u.asleep {
			u.timeWake = true
			any = true
		}
	}
	if any {
		w.advances++
	}
	return any
}

// AdvanceTime lets the harness advance time explicitly (not counted against MaxAdvances).
//
//go:norace
func (w *World) AdvanceTime() {
	for _, u := range w.threads {
		if !u.done && u.asleep {
			u.timeWake = true
		}
	}
}

// stuck: no thread can run.
//
//go:norace
func (w *World) stuck(t *Thread) {
	var blocked []string
	for _, u := range w.threads {
		if !u.done && !w.passive(u) {
			blocked = append(blocked, fmt.Sprintf("%s@%s", u.Name, u.label))
		}
	}
	w.Deadlock = true
	w.DeadlockMsg = "no enabled thread; blocked: " + strings.Join(blocked, ", ")
	w.finish()
}

//go:norace
func (t *Thread) isEnabled() bool { return !t.done && (t.en == nil || t.en.Ready()) }

// candidates in canonical order: the running thread first (if enabled), then
// the other enabled threads of its group by id, then the rest by id. Idle
// waiters are candidates only when nothing else is.
//
//go:norace
func (w *World) candidates(t *Thread, includeSelf bool) []*Thread {
	var same, other, idle []*Thread
	for _, u := range w.threads {
		if u.done || (u == t && !includeSelf) {
			continue
		}
		if u.idleWait {
			idle = append(idle, u)
			continue
		}
		if !u.isEnabled() {
			continue
		}
		switch {
		case u == t:
		case u.Group == t.Group:
			same = append(same, u)
		default:
			other = append(other, u)
		}
	}
	var out []*Thread
	if includeSelf && !t.idleWait && t.isEnabled() {
		out = append(out, t)
	}
	out = append(out, same...)
	out = append(out, other...)
	if len(out) == 0 {
		out = idle
	}
	return out
}

// Point is a scheduling point of the running thread. en==nil: the pending
// operation can complete; otherwise the thread is disabled until en() holds.
// free: every switch at this point costs nothing (step boundaries).
//
//go:norace
func (w *World) Point(label string, free bool, en func() bool) {
	if en == nil {
		w.PointC(label, free, nil)
		return
	}
	w.PointC(label, free, funcCond{en})
}

// Cond is the enabling condition of a blocked operation. Implementations used by the
// shims are methods carrying //go:norace (closures would be instrumented by -race).
type Cond interface{ Ready() bool }

type funcCond struct{ f func() bool }

//go:norace
func (c funcCond) Ready() bool { return c.f() }

type neverCond struct{}

//go:norace
func (neverCond) Ready() bool { return false }

// Never is the condition of an operation that can never complete (nil channel).
var Never Cond = neverCond{}

type joinCond struct{ ts []*Thread }

//go:norace
func (c joinCond) Ready() bool {
	for _, t := range c.ts {
		if !t.done {
			return false
		}
	}
	return true
}

// AllDone is the condition "all given threads have finished".
//
//go:norace
func AllDone(ts []*Thread) Cond { return joinCond{ts} }

// PointC is Point with a Cond.
//
//go:norace
func (w *World) PointC(label string, free bool, en Cond) {
	t := w.cur
	if w.closing {
		return
	}
	t.en, t.label = en, label
	t.ops++
	if w.TraceOn {
		w.Trace = append(w.Trace, fmt.Sprintf("%s:%s", t.Name, label))
	}
	w.noteState()
	cands := w.candidates(t, true)
	if len(cands) == 0 && w.advanceTime() {
		cands = w.candidates(t, true)
	}
	if len(cands) == 0 {
		w.stuck(t)
		w.park(t)
		return
	}
	idx := 0
	if w.NoPreempt && len(cands) > 1 && cands[0] == t {
		cands = cands[:1] // scripted prefix of a scenario: the running thread continues while it can
	}
	if len(cands) > 1 {
		selfEn := cands[0] == t
		groupEn := selfEn
		if !groupEn {
			for _, c := range cands {
				if c.Group == t.Group && !c.idleWait {
					groupEn = true
					break
				}
			}
		}
		kinds := make([]uint8, len(cands))
		const skip = 255
		nAlt := 0
		for i, c := range cands {
			switch {
			case i == 0 || free || c.idleWait:
				kinds[i] = KFree
			case c.Group == t.Group:
				if selfEn {
					kinds[i] = KIntra
				} else {
					kinds[i] = KOrder
				}
			default:
				if groupEn {
					kinds[i] = KPreempt
					if c.OnlyAt != nil && !c.OnlyAt(label) {
						kinds[i] = skip
					}
				}
			}
			if kinds[i] != skip {
				nAlt++
			}
		}
		if nAlt < len(cands) {
			var c2 []*Thread
			var k2 []uint8
			for i, c := range cands {
				if kinds[i] != skip {
					c2, k2 = append(c2, c), append(k2, kinds[i])
				}
			}
			cands, kinds = c2, k2
		}
		if len(cands) > 1 {
			idx = w.ex.Choose(kinds, t.Name+":"+label)
		}
	}
	n := cands[idx]
	w.Transitions++
	if n == t {
		t.en = nil
		return
	}
	w.cur = n
	raceDisable()
	n.wake <- struct{}{}
	raceEnable()
	w.park(t)
}

// park blocks the calling goroutine (the thread's own, or a nested helper
// acting for it) until the thread is scheduled again or the world closes.
//
//go:norace
func (w *World) park(t *Thread) {
	raceDisable()
	<-t.wake
	raceEnable()
	t.en = nil
	if w.closing && t.ID == 0 {
		panic(errAbort)
	}
}

type abortT struct{}

var errAbort = abortT{}

// ChooseFault asks the chooser whether to inject one of n fault kinds at the
// current I/O point. Returns 0 for none.
//
//go:norace
func (w *World) ChooseFault(n int, label string) int {
	if w.closing || n <= 0 {
		return 0
	}
	kinds := make([]uint8, n+1)
	for i := 1; i <= n; i++ {
		kinds[i] = KFault
	}
	return w.ex.Choose(kinds, "fault@"+label)
}

// ChooseEnv is a harness-level choice among n alternatives (alternative 0 free, others cost kind).
//
//go:norace
func (w *World) ChooseEnv(n int, kind uint8, label string) int {
	if w.closing || n <= 1 {
		return 0
	}
	kinds := make([]uint8, n)
	for i := 1; i < n; i++ {
		kinds[i] = kind
	}
	return w.ex.Choose(kinds, "env@"+label)
}

//go:norace
func (w *World) noteState() {
	if w.States == nil {
		return
	}
	if w.States.Len() > 4_000_000 {
		return
	}
	h := uint64(1469598103934665603)
	mix := func(x uint64) { h ^= x; h *= 1099511628211 }
	for _, u := range w.threads {
		mix(uint64(u.ops)<<1 | b2u(u.done))
		for i := 0; i < len(u.label); i++ {
			mix(uint64(u.label[i]))
		}
	}
	if w.StateKey != nil {
		mix(w.StateKey())
	}
	w.States.Add(h)
}

//go:norace
func b2u(b bool) uint64 {
	if b {
		return 1
	}
	return 0
}

// Go starts a controlled thread in a new group (the `go` statement).
//
//go:norace
func Go(f func()) {
	w := W()
	if w == nil {
		go f()
		return
	}
	if w.closing {
		// teardown: run nothing new
		return
	}
	t := w.newThread(fmt.Sprintf("g%d", len(w.threads)), w.newGroup())
	w.start(t, f)
	w.Point("spawn", false, nil)
}

// GoNamed starts a named harness thread in a new group.
//
//go:norace
func (w *World) GoNamed(name string, f func()) *Thread {
	t := w.newThread(name, w.newGroup())
	w.start(t, f)
	return t
}

// GoInGroup starts a thread in the running thread's group (joinable child).
//
//go:norace
func (w *World) GoInGroup(f func()) *Thread {
	p := w.cur
	t := w.newThread(fmt.Sprintf("%s.%d", p.Name, len(w.threads)), p.Group)
	w.start(t, f)
	w.Point("spawn", false, nil)
	return t
}

//go:norace
func (t *Thread) Done() bool {
	return t.done
}

// JoinAcquire establishes the happens-before edge from t's exit.
//
//go:norace
func (t *Thread) JoinAcquire() { raceAcquire(&t.joinTok) }

// Boundary is a step boundary of a harness script: all switches are free.
//
//go:norace
func Boundary(label string) {
	if w := W(); w != nil {
		w.Point("boundary:"+label, true, nil)
	}
}

// Yield is a plain scheduling point (environment operations, I/O).
//
//go:norace
func Yield(label string) {
	if w := W(); w != nil {
		w.Point(label, false, nil)
	}
}

// WaitIdle blocks the calling thread until no other thread can run.
//
//go:norace
func (w *World) WaitIdle() {
	if w.closing {
		return
	}
	t := w.cur
	t.idleWait = true
	w.Point("waitidle", true, nil)
	t.idleWait = false
}

// Join blocks until all given threads are done.
//
//go:norace
func (w *World) Join(ts ...*Thread) {
	w.PointC("join", true, joinCond{ts})
	for _, t := range ts {
		t.JoinAcquire()
	}
}

// passive: parked for good by design (sleeping / waiting for a tick), not deadlocked.
//
//go:norace
func (w *World) passive(u *Thread) bool { return u.asleep || w.tickerBlocked(u) }

// Quiescent reports whether every unfinished thread other than the caller is asleep.
//
//go:norace
func (w *World) Quiescent() bool {
	for _, u := range w.threads {
		if u != w.cur && !u.done && !w.passive(u) {
			return false
		}
	}
	return true
}

// Blocked lists unfinished threads (other than the caller) that are neither
// enabled nor asleep — i.e. waiting for something that may never come.
//
//go:norace
func (w *World) Blocked() []string {
	var out []string
	for _, u := range w.threads {
		if u != w.cur && !u.done && !w.passive(u) && !u.isEnabled() {
			out = append(out, u.Name+"@"+u.label)
		}
	}
	sort.Strings(out)
	return out
}

// Close tears the world down: every unfinished thread is released one at a
// time (newest first) with all shim operations non-blocking, so that it
// unwinds through its normal error paths. Returns an error text if a thread
// did not finish.
//
//go:norace
func (w *World) Close() string {
	w.closing = true
	var problems []string
	for i := len(w.threads) - 1; i >= 0; i-- {
		t := w.threads[i]
		select {
		case <-t.exited:
			continue
		default:
		}
		select {
		case t.wake <- struct{}{}:
		default:
		}
		select {
		case <-t.exited:
		case <-time.After(20 * time.Second):
			buf := make([]byte, 1<<16)
			n := runtime.Stack(buf, true)
			problems = append(problems, fmt.Sprintf("thread %s (at %s) did not unwind in teardown\n%s", t.Name, t.label, buf[:n]))
		}
	}
	if curWorld == w {
		curWorld = nil
	}
	return strings.Join(problems, "\n")
}

// Contentions counts Lock calls that found the mutex held (non-vacuity counter).
var Contentions int64

//go:norace
func CountContention() { Contentions++ }

// StateSet is an open-addressing set of 64-bit state keys (no runtime map: the race
// detector instruments map operations even in norace code).
type StateSet struct {
	tab []uint64
	n   int
}

//go:norace
func NewStateSet() *StateSet { return &StateSet{tab: make([]uint64, 1024)} }

//go:norace
func (s *StateSet) Len() int {
	if s == nil {
		return 0
	}
	return s.n
}

//go:norace
func (s *StateSet) Add(h uint64) {
	if h == 0 {
		h = 1
	}
	if s.n*2 >= len(s.tab) {
		old := s.tab
		s.tab = make([]uint64, len(old)*2)
		s.n = 0
		for _, x := range old {
			if x != 0 {
				s.Add(x)
			}
		}
	}
	mask := uint64(len(s.tab) - 1)
	for i := h & mask; ; i = (i + 1) & mask {
		if s.tab[i] == h {
			return
		}
		if s.tab[i] == 0 {
			s.tab[i] = h
			s.n++
			return
		}
	}
}
