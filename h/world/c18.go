//go:build verif

package world

// StateKeyFn returns a cheap state key function: running commit hash mixed with the node's chain version.
//
//go:norace
func (w *W) StateKeyFn(host string) func() uint64 {
	return stateKey{w, host}.key
}

type stateKey struct {
	w    *W
	host string
}

//go:norace
func (k stateKey) key() uint64 {
	v := 0
	if n := k.w.Node(k.host); n != nil {
		v = n.Version
	}
	return k.w.CommitHash ^ uint64(v)<<48
}
