//go:build verif

package world

import (
	"encoding/hex"
	"encoding/json"
	"fmt"
	"math/big"
	"sort"
	"strings"

	"verifh/ref"
	"verifh/simeth"
	"verifh/simpg"
)

// ---- declarations (reference side) ---------------------------------------------------
//
// A Decl is the harness's own description of an integration. It renders the JSON
// configuration shovel consumes, builds logs whose values the oracle knows, and computes
// the DECLARED PROJECTION: the rows the integration must have emitted for a range of
// blocks. Nothing here looks at package dig.

type Input struct {
	Name    string
	Type    string // elementary type, optionally with ONE array suffix: "uint256", "address[]", "uint256[2]"
	Indexed bool
	Column  string // "" = not selected
	ColType string // pg column type; default derived from Type
	// filter (optional)
	Op  string
	Arg []string
	Ref *Ref
}

type Ref struct{ Integration, Column string }

type Field struct {
	Name    string // block/tx/receipt/log/trace field name
	Column  string
	ColType string
	Op      string
	Arg     []string
	Ref     *Ref
}

type SrcRef struct {
	Name        string
	Start, Stop uint64
}

type Decl struct {
	Name      string
	Table     string
	Event     string // event name; "" = transaction / trace indexing
	Inputs    []Input
	Fields    []Field
	Sources   []SrcRef
	FilterAgg string // "", "and", "or"
	Enabled   *bool
	ExtraCols [][2]string // additional user columns (name, type)
	Notify    []string
	Unique    [][]string
	Index     [][]string
}

//go:norace
func baseType(t string) (base string, arr bool, k int) {
	i := strings.IndexByte(t, '[')
	if i < 0 {
		return t, false, 0
	}
	base = t[:i]
	inner := t[i+1 : len(t)-1]
	if inner != "" {
		fmt.Sscanf(inner, "%d", &k)
	}
	return base, true, k
}

// PGType is the documented column type for an ABI type.
//
//go:norace
func PGType(abi string) string {
	b, _, _ := baseType(abi)
	switch {
	case strings.HasPrefix(b, "uint"), strings.HasPrefix(b, "int"):
		return "numeric"
	case b == "bool":
		return "bool"
	case b == "string":
		return "text"
	default:
		return "bytea"
	}
}

// FieldPGType is the documented column type of a block/tx/receipt/log/trace field.
//
//go:norace
func FieldPGType(name string) string {
	switch name {
	case "src_name", "ig_name", "trace_action_call_type":
		return "text"
	case "chain_id", "tx_idx", "log_idx", "abi_idx", "trace_action_idx":
		return "int"
	case "tx_type", "tx_status":
		return "int"
	case "block_num", "block_time", "tx_value", "tx_nonce", "tx_gas_used", "tx_gas_price", "tx_effective_gas_price",
		"tx_max_priority_fee_per_gas", "tx_max_fee_per_gas", "trace_action_value":
		return "numeric"
	default:
		return "bytea"
	}
}

//go:norace
func (d *Decl) node(in Input) *ref.Node {
	b, arr, k := baseType(in.Type)
	if arr {
		return ref.Leaf(b, k)
	}
	return ref.Leaf(b)
}

// Signature is the canonical event signature (scalar and one-dimensional array inputs only).
//
//go:norace
func (d *Decl) Signature() string {
	var ts []string
	for _, in := range d.Inputs {
		ts = append(ts, in.Type)
	}
	return d.Event + "(" + strings.Join(ts, ",") + ")"
}

//go:norace
func (d *Decl) SigHash() []byte { return ref.Keccak256([]byte(d.Signature())) }

//go:norace
func (d *Decl) NumIndexed() int {
	n := 0
	for _, in := range d.Inputs {
		if in.Indexed {
			n++
		}
	}
	return n
}

//go:norace
func filterJSON(op string, arg []string, r *Ref, m map[string]any) {
	if op != "" {
		m["filter_op"] = op
	}
	if len(arg) > 0 {
		m["filter_arg"] = arg
	}
	if r != nil {
		m["filter_ref"] = map[string]any{"integration": r.Integration, "column": r.Column}
	}
}

// Columns lists the user-declared table columns (the required identity columns are added by shovel).
//
//go:norace
func (d *Decl) Columns() [][2]string {
	var cols [][2]string
	for _, in := range d.Inputs {
		if in.Column != "" {
			t := in.ColType
			if t == "" {
				t = PGType(in.Type)
			}
			cols = append(cols, [2]string{in.Column, t})
		}
	}
	for _, f := range d.Fields {
		t := f.ColType
		if t == "" {
			t = FieldPGType(f.Name)
		}
		cols = append(cols, [2]string{f.Column, t})
	}
	cols = append(cols, d.ExtraCols...)
	return cols
}

// Integration renders the integration as the JSON tree of a config file.
//
//go:norace
func (d *Decl) Integration() map[string]any {
	ig := map[string]any{"name": d.Name, "enabled": d.Enabled == nil || *d.Enabled}
	var srcs []any
	for _, s := range d.Sources {
		m := map[string]any{"name": s.Name}
		if s.Start > 0 {
			m["start"] = s.Start
		}
		if s.Stop > 0 {
			m["stop"] = s.Stop
		}
		srcs = append(srcs, m)
	}
	ig["sources"] = srcs
	var cols []any
	for _, c := range d.Columns() {
		cols = append(cols, map[string]any{"name": c[0], "type": c[1]})
	}
	tbl := map[string]any{"name": d.Table, "columns": cols}
	if len(d.Unique) > 0 {
		tbl["unique"] = d.Unique
	}
	if len(d.Index) > 0 {
		tbl["index"] = d.Index
	}
	ig["table"] = tbl
	if d.FilterAgg != "" {
		ig["filter_agg"] = d.FilterAgg
	}
	if len(d.Notify) > 0 {
		ig["notification"] = map[string]any{"columns": d.Notify}
	}
	var block []any
	for _, f := range d.Fields {
		m := map[string]any{"name": f.Name, "column": f.Column}
		filterJSON(f.Op, f.Arg, f.Ref, m)
		block = append(block, m)
	}
	if block != nil {
		ig["block"] = block
	}
	if d.Event != "" {
		var ins []any
		for _, in := range d.Inputs {
			m := map[string]any{"name": in.Name, "type": in.Type, "indexed": in.Indexed}
			if in.Column != "" {
				m["column"] = in.Column
			}
			filterJSON(in.Op, in.Arg, in.Ref, m)
			ins = append(ins, m)
		}
		ig["event"] = map[string]any{"name": d.Event, "type": "event", "anonymous": false, "inputs": ins}
	}
	return ig
}

// Source describes one eth source of a config file.
type Source struct {
	Name        string
	ChainID     uint64
	URL         string
	Batch, Conc int
	Poll        string
}

// ConfJSON renders a complete configuration file.
//
//go:norace
func ConfJSON(srcs []Source, decls []*Decl) string {
	var ss []any
	for _, s := range srcs {
		m := map[string]any{"name": s.Name, "chain_id": s.ChainID, "url": s.URL}
		if s.Batch > 0 {
			m["batch_size"] = s.Batch
		}
		if s.Conc > 0 {
			m["concurrency"] = s.Conc
		}
		if s.Poll != "" {
			m["poll_duration"] = s.Poll
		}
		ss = append(ss, m)
	}
	var igs []any
	for _, d := range decls {
		igs = append(igs, d.Integration())
	}
	b, _ := json.Marshal(map[string]any{"pg_url": "postgres:///sim", "eth_sources": ss, "integrations": igs})
	return string(b)
}

// ---- logs with known values ------------------------------------------------------------

// LogNote is attached to generated logs (never served).
type LogNote struct {
	Decl *Decl
	Vals []ref.Value // one per input, in declaration order
}

// U256 / Addr32 / helpers to build words.
//
//go:norace
func U(n uint64) []byte {
	w := make([]byte, 32)
	new(big.Int).SetUint64(n).FillBytes(w)
	return w
}

//go:norace
func WordBig(x *big.Int) []byte {
	w := make([]byte, 32)
	if x.Sign() >= 0 {
		x.FillBytes(w)
		return w
	}
	m := new(big.Int).Add(new(big.Int).Lsh(big.NewInt(1), 256), x)
	m.FillBytes(w)
	return w
}

//go:norace
func AddrWord(a []byte) []byte {
	w := make([]byte, 32)
	copy(w[12:], a)
	return w
}

// MkLog builds a log of d's event emitted by addr carrying vals (one value per input: a
// 32-byte word for static types, raw bytes for bytes/string, []any of those for arrays).
// Indexed dynamic/array inputs are not supported (their topic is a hash).
//
//go:norace
func (d *Decl) MkLog(addr []byte, vals ...ref.Value) *simeth.Log {
	if len(vals) != len(d.Inputs) {
		panic("MkLog: value count")
	}
	l := &simeth.Log{Address: addr, Topics: [][]byte{d.SigHash()}, Note: &LogNote{Decl: d, Vals: vals}, Tag: d.Name}
	var nodes []*ref.Node
	var nvals []ref.Value
	for i, in := range d.Inputs {
		if in.Indexed {
			l.Topics = append(l.Topics, vals[i].([]byte))
			continue
		}
		nodes = append(nodes, d.node(in))
		nvals = append(nvals, vals[i])
	}
	if len(nodes) > 0 {
		l.Data = ref.EncodeInputs(nodes, nvals)
	}
	return l
}

// ---- typed values -----------------------------------------------------------------------

// DBVal maps an ABI value to the documented stored value.
//
//go:norace
func DBVal(abi string, raw []byte) any {
	b, _, _ := baseType(abi)
	switch {
	case strings.HasPrefix(b, "uint"):
		return new(big.Int).SetBytes(raw)
	case strings.HasPrefix(b, "int"):
		x := new(big.Int).SetBytes(raw)
		if len(raw) == 32 && raw[0]&0x80 != 0 {
			x.Sub(x, new(big.Int).Lsh(big.NewInt(1), 256))
		}
		return x
	case b == "address":
		if len(raw) == 32 {
			return append([]byte(nil), raw[12:]...)
		}
		return raw
	case b == "bool":
		return len(raw) == 32 && raw[31] == 1
	case b == "string":
		return string(raw)
	default:
		return append([]byte{}, raw...)
	}
}

// FieldVal is the node's value of a block/tx/receipt/log/trace field for one item.
//
//go:norace
func FieldVal(name string, src string, chainID uint64, ig string, b *simeth.Block, t *simeth.Tx, l *simeth.Log, tr *simeth.Trace, trIdx int) any {
	bi := func(x *big.Int) any { return new(big.Int).Set(x) }
	bu := func(x uint64) any { return new(big.Int).SetUint64(x) }
	bs := func(x []byte) any {
		if x == nil {
			return []byte{}
		}
		return append([]byte{}, x...)
	}
	switch name {
	case "src_name":
		return src
	case "ig_name":
		return ig
	case "chain_id":
		return int64(chainID)
	case "block_hash":
		return bs(b.Hash)
	case "block_num":
		return bu(b.Num)
	case "block_time":
		return bu(b.Time)
	case "tx_hash":
		return bs(t.Hash)
	case "tx_idx":
		return int64(t.Idx)
	case "tx_signer":
		return bs(t.From)
	case "tx_to":
		return bs(t.To)
	case "tx_value":
		return bi(t.Value)
	case "tx_input":
		return bs(t.Input)
	case "tx_type":
		return int64(t.Type)
	case "tx_status":
		return int64(t.Status)
	case "tx_nonce":
		return bu(t.Nonce)
	case "tx_gas_used":
		return bu(t.GasUsed)
	case "tx_gas_price":
		return bi(t.GasPrice)
	case "tx_effective_gas_price":
		return bi(t.EffectiveGasPrice)
	case "tx_contract_address":
		return bs(t.ContractAddress)
	case "tx_max_priority_fee_per_gas":
		return bi(t.MaxPriorityFeePerGas)
	case "tx_max_fee_per_gas":
		return bi(t.MaxFeePerGas)
	case "log_idx":
		return int64(l.Idx)
	case "log_addr":
		return bs(l.Address)
	case "trace_action_call_type":
		return tr.CallType
	case "trace_action_idx":
		return int64(trIdx)
	case "trace_action_from":
		return bs(tr.From)
	case "trace_action_to":
		return bs(tr.To)
	case "trace_action_value":
		return bi(tr.Value)
	}
	panic("FieldVal: unknown field " + name)
}

// AllFields is the list of field names the row builder understands.
var AllFields = []string{"src_name", "ig_name", "chain_id", "block_hash", "block_num", "block_time", "tx_hash", "tx_idx",
	"tx_signer", "tx_to", "tx_value", "tx_input", "tx_type", "tx_status", "log_idx", "tx_gas_used", "tx_gas_price",
	"tx_effective_gas_price", "tx_contract_address", "tx_max_priority_fee_per_gas", "tx_max_fee_per_gas", "tx_nonce",
	"log_addr", "trace_action_call_type", "trace_action_idx", "trace_action_from", "trace_action_to", "trace_action_value"}

// ---- rows ----------------------------------------------------------------------------------

type Row map[string]any

// Render is the canonical text of a value.
//
//go:norace
func Render(v any) string {
	switch x := v.(type) {
	case nil:
		return "NULL"
	case *big.Int:
		if x == nil {
			return "NULL"
		}
		return "n:" + x.String()
	case []byte:
		return "b:" + hex.EncodeToString(x)
	case string:
		return "s:" + x
	case int64:
		return fmt.Sprintf("i:%d", x)
	case int:
		return fmt.Sprintf("i:%d", x)
	case bool:
		return fmt.Sprintf("t:%v", x)
	}
	return fmt.Sprintf("?%T:%v", v, v)
}

// RenderRow renders the given columns of a row.
//
//go:norace
func RenderRow(r Row, cols []string) string {
	var sb strings.Builder
	for i, c := range cols {
		if i > 0 {
			sb.WriteByte('|')
		}
		sb.WriteString(c)
		sb.WriteByte('=')
		sb.WriteString(Render(r[c]))
	}
	return sb.String()
}

// TableCols returns the column names of a table, sorted, without volatile columns.
//
//go:norace
func (w *W) TableCols(table string) []string {
	var out []string
	for _, c := range w.PG.Columns(table) {
		out = append(out, c.Name)
	}
	sort.Strings(out)
	return out
}

// DumpRows returns the committed rows of a table rendered canonically and sorted.
//
//go:norace
func RenderDump(rows []simpg.Row, cols []string) []string {
	var out []string
	for _, r := range rows {
		out = append(out, RenderRow(Row(r.Vals), cols))
	}
	sort.Strings(out)
	return out
}

//go:norace
func RenderRows(rows []Row, cols []string) []string {
	var out []string
	for _, r := range rows {
		out = append(out, RenderRow(r, cols))
	}
	sort.Strings(out)
	return out
}

// DiffSorted explains the difference of two sorted string multisets.
//
//go:norace
func DiffSorted(got, want []string) string {
	var sb strings.Builder
	i, j, n := 0, 0, 0
	for (i < len(got) || j < len(want)) && n < 6 {
		switch {
		case j >= len(want) || (i < len(got) && got[i] < want[j]):
			fmt.Fprintf(&sb, "  unexpected row: %s\n", got[i])
			i++
			n++
		case i >= len(got) || want[j] < got[i]:
			fmt.Fprintf(&sb, "  missing row:    %s\n", want[j])
			j++
			n++
		default:
			i++
			j++
		}
	}
	return sb.String()
}

// Cursor is one shovel.task_updates row.
type Cursor struct {
	Src, IG string
	Num     uint64
	Hash    []byte
	ID      int64
}

//go:norace
func (w *W) Cursors() []Cursor {
	var out []Cursor
	for _, r := range w.PG.Dump("shovel.task_updates") {
		c := Cursor{ID: r.ID}
		c.Src, _ = r.Vals["src_name"].(string)
		c.IG, _ = r.Vals["ig_name"].(string)
		if n, ok := r.Vals["num"].(*big.Int); ok && n != nil {
			c.Num = n.Uint64()
		}
		c.Hash, _ = r.Vals["hash"].([]byte)
		out = append(out, c)
	}
	return out
}

// Latest returns the highest cursor of a pair.
//
//go:norace
func (w *W) Latest(src, ig string) (Cursor, bool) {
	var best Cursor
	ok := false
	for _, c := range w.Cursors() {
		if c.Src == src && c.IG == ig && (!ok || c.Num > best.Num) {
			best, ok = c, true
		}
	}
	return best, ok
}

// ---- the declared projection -----------------------------------------------------------------

// Accept is the reference filter predicate for one field value (nil filter accepts).
// refLookup(table column value) answers reference filters.
type RefLookup func(integration, column string, v []byte) bool

//go:norace
func acceptOne(op string, arg []string, r *Ref, v any, look RefLookup) (set bool, res bool) {
	if len(arg) == 0 && r == nil {
		return false, true
	}
	switch x := v.(type) {
	case []byte:
		switch op {
		case "contains", "!contains":
			hit := false
			if r != nil {
				hit = look != nil && look(r.Integration, r.Column, x)
			} else {
				for _, a := range arg {
					if bytesContains(x, unhex(a)) {
						hit = true
					}
				}
			}
			if op == "!contains" {
				hit = !hit
			}
			return true, hit
		case "eq", "ne":
			hit := false
			for _, a := range arg {
				if string(x) == string(unhex(a)) {
					hit = true
				}
			}
			if op == "ne" {
				hit = !hit
			}
			return true, hit
		}
		return true, true
	case string:
		in := false
		for _, a := range arg {
			if a == x {
				in = true
			}
		}
		switch op {
		case "contains":
			return true, in
		case "!contains":
			return true, !in
		case "eq":
			return true, len(arg) > 0 && x == arg[0]
		case "ne":
			return true, len(arg) > 0 && x != arg[0]
		}
		return false, true
	case *big.Int:
		a, ok := new(big.Int).SetString(arg[0], 10)
		if !ok {
			return false, true
		}
		c := x.Cmp(a)
		switch op {
		case "eq":
			return true, c == 0
		case "ne":
			return true, c != 0
		case "gt":
			return true, c > 0
		case "lt":
			return true, c < 0
		}
		return false, true
	}
	return false, true
}

//go:norace
func unhex(s string) []byte {
	s = strings.TrimPrefix(strings.TrimPrefix(s, "0x"), "0X")
	if len(s)%2 == 1 {
		s = "0" + s
	}
	b, _ := hex.DecodeString(s)
	return b
}

//go:norace
func bytesContains(a, b []byte) bool { return strings.Contains(string(a), string(b)) }

type acc struct {
	agg      string
	set, val bool
}

//go:norace
func (a *acc) add(set, res bool) {
	if !set {
		return
	}
	if !a.set {
		a.set, a.val = true, res
		return
	}
	if a.agg == "and" {
		a.val = a.val && res
	} else {
		a.val = a.val || res
	}
}

//go:norace
func (a *acc) ok() bool { return !a.set || a.val }

// identity columns shovel adds when missing
//
//go:norace
func (d *Decl) autoFields() []string {
	has := map[string]bool{}
	for _, f := range d.Fields {
		has[f.Name] = true
	}
	var out []string
	add := func(n string) {
		if !has[n] {
			has[n] = true
			out = append(out, n)
		}
	}
	add("ig_name")
	add("src_name")
	add("block_num")
	add("tx_idx")
	sel, nonIdx := false, false
	for _, in := range d.Inputs {
		if in.Column != "" {
			sel = true
			if !in.Indexed {
				nonIdx = true
			}
		}
	}
	if sel {
		add("log_idx")
	}
	if nonIdx {
		add("abi_idx")
	}
	for _, f := range d.Fields {
		if strings.HasPrefix(f.Name, "trace_") {
			add("trace_action_idx")
			break
		}
	}
	return out
}

// Kind is "log", "trace" or "tx".
//
//go:norace
func (d *Decl) Kind() string {
	for _, in := range d.Inputs {
		if in.Column != "" {
			return "log"
		}
	}
	for _, f := range d.Fields {
		if strings.HasPrefix(f.Name, "trace_") {
			return "trace"
		}
	}
	return "tx"
}

// Expect computes the declared projection of blocks lo..hi (inclusive) of chain c for (src, d).
//
//go:norace
func (d *Decl) Expect(c *simeth.Chain, src string, chainID uint64, lo, hi uint64, look RefLookup) []Row {
	var rows []Row
	auto := d.autoFields()
	kind := d.Kind()
	fieldsInto := func(r Row, a *acc, b *simeth.Block, t *simeth.Tx, l *simeth.Log, tr *simeth.Trace, ti int) {
		for _, f := range d.Fields {
			if f.Name == "abi_idx" {
				continue
			}
			v := FieldVal(f.Name, src, chainID, d.Name, b, t, l, tr, ti)
			r[f.Column] = v
			a.add(acceptOne(f.Op, f.Arg, f.Ref, filterView(v), look))
		}
		for _, n := range auto {
			if n == "abi_idx" {
				continue
			}
			r[n] = FieldVal(n, src, chainID, d.Name, b, t, l, tr, ti)
		}
	}
	for n := lo; n <= hi && n < uint64(len(c.Blocks)); n++ {
		b := c.Blocks[n]
		for _, t := range b.Txs {
			switch kind {
			case "tx":
				r := Row{}
				a := &acc{agg: d.FilterAgg}
				fieldsInto(r, a, b, t, nil, nil, 0)
				if a.ok() {
					rows = append(rows, r)
				}
			case "trace":
				for ti, tr := range t.Traces {
					r := Row{}
					a := &acc{agg: d.FilterAgg}
					fieldsInto(r, a, b, t, nil, tr, ti)
					if a.ok() {
						rows = append(rows, r)
					}
				}
			case "log":
				for _, l := range t.Logs {
					if len(l.Topics) != d.NumIndexed()+1 || string(l.Topics[0]) != string(d.SigHash()) {
						continue
					}
					note, _ := l.Note.(*LogNote)
					if note == nil || note.Decl.Signature() != d.Signature() {
						panic("Expect: matching log without note for " + d.Name)
					}
					// rows: one per element of the selected array input (at most one array input supported), else one
					nrows, arrIdx := 1, -1
					for i, in := range d.Inputs {
						if _, isArr, _ := baseType(in.Type); isArr && in.Column != "" {
							arrIdx = i
							nrows = len(note.Vals[i].([]any))
						}
					}
					if arrIdx >= 0 && nrows == 0 {
						nrows = 1 // documented singleton row
					}
					for ri := 0; ri < nrows; ri++ {
						r := Row{}
						a := &acc{agg: d.FilterAgg}
						for i, in := range d.Inputs {
							if in.Column == "" {
								continue
							}
							var raw []byte
							if i == arrIdx {
								els := note.Vals[i].([]any)
								if len(els) > 0 {
									raw = els[ri].([]byte)
								}
							} else {
								raw = note.Vals[i].([]byte)
							}
							v := DBVal(in.Type, raw)
							r[in.Column] = v
							a.add(acceptOne(in.Op, in.Arg, in.Ref, filterView(v), look))
						}
						fieldsInto(r, a, b, t, l, nil, 0)
						hasAbi := false
						for _, n := range auto {
							if n == "abi_idx" {
								hasAbi = true
							}
						}
						for _, f := range d.Fields {
							if f.Name == "abi_idx" {
								r[f.Column] = int64(ri)
							}
						}
						if hasAbi {
							r["abi_idx"] = int64(ri)
						}
						if a.ok() {
							rows = append(rows, r)
						}
					}
				}
			}
		}
	}
	return rows
}

// filterView presents a stored value to the filter predicate in the kinds the property lists:
// byte strings, strings, unsigned integers (int64 fields are compared as integers).
//
//go:norace
func filterView(v any) any {
	switch x := v.(type) {
	case int64:
		return big.NewInt(x)
	case bool:
		return nil
	}
	return v
}
