//go:build verif

// Package world assembles one execution: controlled runtime + fake Postgres +
// simulated nodes + the REAL shovel pipeline (config.ValidateFix → Schema →
// Migrate → loadTasks → NewTask → Converge), exactly the start-up path of
// cmd/shovel/main.go.
package world

import (
	"context"
	"encoding/json"
	"fmt"
	"io"
	"log/slog"
	"sort"
	"strings"
	"time"

	"github.com/indexsupply/shovel/shovel"
	"github.com/indexsupply/shovel/shovel/config"
	"github.com/indexsupply/shovel/wpg"
	"github.com/jackc/pgx/v5/pgxpool"

	"verifh/simeth"
	"verifh/simpg"
	"verifh/vrt"
)

//go:norace
func init() {
	// shovel logs through slog's default logger; keep workers quiet and fast
	slog.SetDefault(slog.New(slog.NewTextHandler(io.Discard, &slog.HandlerOptions{Level: slog.Level(100)})))
}

// Commit is one observed transaction end, attributed to the thread that issued it.
type Commit struct {
	Thread string
	Ev     simpg.CommitEvent
}

type W struct {
	V    *vrt.World
	PG   *simpg.Server
	Net  *simeth.Net
	Pool *pgxpool.Pool
	Ctx  context.Context

	Commits  []Commit
	OnCommit func(c Commit)

	// fault injection: number of fault kinds offered at each SQL batch / RPC exchange (0 = no choice point)
	SQLFaultKinds int                     // 1: error; 2: error, drop
	RPCFaultKinds int                     // 1: rpcerror; 2: +transport; 3: +status 500; 4: +truncate
	FaultFilter   func(label string) bool // nil = every I/O point
	Faults        []string                // injected faults, in order
	IOLabels      []string                // labels of the I/O points executed (when RecordIO)
	RecordIO      bool
	OnExchange    func(ex *simeth.Exchange)                     // extra hook at every RPC exchange, before faults (after the scheduling point)
	OnSQL         func(label string, b simpg.Batch) simpg.Fault // extra hook at every SQL gate, after the scheduling point (process death etc.)

	BodyEndRaceErrors int    // set by race harnesses at the end of the body (teardown reports do not count)
	CommitHash        uint64 // running hash over the committed changes (cheap state key)

	dead       bool
	HarnessErr string
}

// Cfg describes the static part of an execution.
type Cfg struct {
	Snap   *simpg.Snapshot          // initialised database (InitDB); nil = empty server
	Chains map[string]*simeth.Chain // node host name → initial chain
}

// ParseConf decodes a JSON configuration and runs ValidateFix, as main.go does for -config.
//
//go:norace
func ParseConf(js string) (config.Root, error) {
	var conf config.Root
	if err := json.NewDecoder(strings.NewReader(js)).Decode(&conf); err != nil {
		return conf, fmt.Errorf("decode: %w", err)
	}
	if err := config.ValidateFix(&conf); err != nil {
		return conf, fmt.Errorf("validate: %w", err)
	}
	return conf, nil
}

// Migrate runs the migration of main.go (advisory lock, schema, config.Migrate) on pool.
//
//go:norace
func Migrate(ctx context.Context, pool *pgxpool.Pool, conf config.Root) error {
	dbtx, err := pool.Begin(ctx)
	if err != nil {
		return err
	}
	defer dbtx.Rollback(ctx)
	if _, err = dbtx.Exec(ctx, "select pg_advisory_xact_lock($1)", wpg.LockHash("main.migrate")); err != nil {
		return err
	}
	if _, err = dbtx.Exec(ctx, shovel.Schema); err != nil {
		return fmt.Errorf("schema: %w", err)
	}
	if err = config.Migrate(ctx, dbtx, conf); err != nil {
		return err
	}
	return dbtx.Commit(ctx)
}

// InitDB runs the migration on a scratch server (pass-through mode, no world) and snapshots it.
//
//go:norace
func InitDB(conf config.Root) (*simpg.Snapshot, error) {
	if vrt.W() != nil {
		return nil, fmt.Errorf("InitDB inside a world")
	}
	pg := simpg.NewServer()
	ctx := context.Background()
	pool, err := pg.NewPool(ctx)
	if err != nil {
		return nil, err
	}
	defer pool.Close()
	if err := Migrate(ctx, pool, conf); err != nil {
		return nil, err
	}
	if u := pg.Unsupported(); len(u) > 0 {
		return nil, fmt.Errorf("HARNESS-LIMIT unsupported SQL: %v", u)
	}
	return pg.Snapshot(), nil
}

// New builds a world; nothing runs until Run.
//
//go:norace
func New(ch vrt.Chooser, cfg Cfg) *W {
	w := &W{Ctx: context.Background()}
	w.V = vrt.NewWorld(ch)
	w.PG = simpg.NewServer()
	if cfg.Snap != nil {
		w.PG.Restore(cfg.Snap)
	}
	w.Net = simeth.NewNet()
	var hosts []string
	for h := range cfg.Chains {
		hosts = append(hosts, h)
	}
	sort.Strings(hosts)
	for _, h := range hosts {
		w.Net.Add(simeth.NewNode(h, cfg.Chains[h]))
	}
	w.Net.Install()
	w.hook()
	return w
}

//go:norace
func emptySQL(sqls []string) bool {
	for _, q := range sqls {
		t := strings.TrimSpace(q)
		if t != "" && t != ";" && !strings.HasPrefix(t, "--") {
			return false
		}
	}
	return true
}

//go:norace
func sqlLabel(b simpg.Batch) string {
	s := ""
	if len(b.SQL) > 0 {
		f := strings.Fields(b.SQL[0])
		for i := 0; i < len(f) && i < 3; i++ {
			if i > 0 {
				s += " "
			}
			s += strings.ToLower(f[i])
		}
		if len(b.SQL) > 1 {
			s += fmt.Sprintf(" (+%d)", len(b.SQL)-1)
		}
	}
	return "sql:" + b.Kind + ":" + s
}

//go:norace
func rpcLabel(ex *simeth.Exchange) string {
	var ms []string
	for i, c := range ex.Calls {
		if i > 0 && c.Method == ex.Calls[i-1].Method {
			continue
		}
		ms = append(ms, c.Method)
	}
	return "rpc:" + ex.Host + ":" + strings.Join(ms, "+")
}

//go:norace
func (w *W) hook() {
	w.PG.Gate = w.sqlGate
	w.PG.Block = w.sqlBlock
	w.PG.OnCommit = w.onCommit
	w.Net.Gate = w.rpcGate
}

// The hooks are methods (not closures) so that //go:norace covers them: they run on the
// goroutines of controlled threads and touch harness state.

//go:norace
func (w *W) sqlGate(b simpg.Batch) simpg.Fault {
	if w.V.Cur() == nil || w.V.Closing() || w.dead {
		return simpg.FaultNone
	}
	if b.Kind == "startup" || b.Kind == "terminate" || b.PrepareOnly {
		return simpg.FaultNone
	}
	if b.Kind == "query" && emptySQL(b.SQL) {
		return simpg.FaultNone // pgxpool's idle-connection ping ("-- ping"): wall-clock dependent, no effect
	}
	label := sqlLabel(b)
	w.V.Point(label, false, nil)
	if w.V.Closing() {
		return simpg.FaultDrop
	}
	if w.RecordIO {
		w.IOLabels = append(w.IOLabels, label)
	}
	if w.OnSQL != nil {
		if f := w.OnSQL(label, b); f != simpg.FaultNone {
			return f
		}
	}
	if w.SQLFaultKinds > 0 && (w.FaultFilter == nil || w.FaultFilter(label)) {
		switch w.V.ChooseFault(w.SQLFaultKinds, label) {
		case 1:
			w.Faults = append(w.Faults, label+"=error")
			return simpg.FaultError
		case 2:
			w.Faults = append(w.Faults, label+"=drop")
			return simpg.FaultDrop
		}
	}
	return simpg.FaultNone
}

//go:norace
func (w *W) sqlBlock(ready func() bool) {
	if w.V.Cur() == nil || w.V.Closing() {
		return
	}
	w.V.Point("sql:lockwait", false, ready)
}

//go:norace
func (w *W) onCommit(ev simpg.CommitEvent) {
	name := "?"
	if c := w.V.Cur(); c != nil {
		name = c.Name
	}
	if len(ev.Changes) > 0 && (ev.Kind == "commit" || ev.Kind == "autocommit") {
		w.V.Bump()
	}
	if ev.Kind == "commit" || ev.Kind == "autocommit" {
		h := w.CommitHash*1099511628211 + uint64(len(ev.Changes))
		for _, ch := range ev.Changes {
			for i := 0; i < len(ch.Table); i++ {
				h = (h ^ uint64(ch.Table[i])) * 1099511628211
			}
			h = (h ^ uint64(ch.Row.ID)) * 1099511628211
			if ch.Op == "delete" {
				h ^= 0x9e3779b97f4a7c15
			}
		}
		w.CommitHash = h
	}
	c := Commit{Thread: name, Ev: ev}
	w.Commits = append(w.Commits, c)
	if w.OnCommit != nil {
		w.OnCommit(c)
	}
}

//go:norace
func (w *W) rpcGate(ex *simeth.Exchange) {
	if w.V.Cur() == nil || w.V.Closing() || w.dead {
		return
	}
	label := rpcLabel(ex)
	w.V.Point(label, false, nil)
	if w.V.Closing() {
		ex.Fault = simeth.Fault{Kind: "transport"}
		return
	}
	if w.RecordIO {
		w.IOLabels = append(w.IOLabels, label)
	}
	if w.OnExchange != nil {
		w.OnExchange(ex)
	}
	if w.RPCFaultKinds > 0 && (w.FaultFilter == nil || w.FaultFilter(label)) {
		switch w.V.ChooseFault(w.RPCFaultKinds, label) {
		case 1:
			ex.Fault = simeth.Fault{Kind: "rpcerror", Code: -32000}
			w.Faults = append(w.Faults, label+"=rpcerror")
		case 2:
			ex.Fault = simeth.Fault{Kind: "transport"}
			w.Faults = append(w.Faults, label+"=transport")
		case 3:
			ex.Fault = simeth.Fault{Kind: "status", Code: 500, Body: "oops"}
			w.Faults = append(w.Faults, label+"=status500")
		case 4:
			ex.Fault = simeth.Fault{Kind: "truncate", Keep: 7}
			w.Faults = append(w.Faults, label+"=truncate")
		}
	}
}

// Run executes body as the main controlled thread, then tears everything down.
//
//go:norace
func (w *W) Run(body func()) {
	w.V.Run(func() {
		pool, err := w.PG.NewPool(w.Ctx)
		if err != nil {
			w.HarnessErr = "pool: " + err.Error()
			return
		}
		w.Pool = pool
		body()
	})
	w.dead = true
	w.PG.Refuse(true)
	w.PG.DropAll()
	w.Net.Close()
	if msg := w.V.Close(); msg != "" {
		w.HarnessErr = "teardown: " + msg
	}
	if w.Pool != nil {
		done := make(chan struct{})
		go func() { w.Pool.Close(); close(done) }()
		select {
		case <-done:
		case <-time.After(15 * time.Second):
			w.HarnessErr = "teardown: pool.Close hung (a connection was never released)"
		}
	}
	if u := w.PG.Unsupported(); len(u) > 0 && w.HarnessErr == "" {
		w.HarnessErr = fmt.Sprintf("HARNESS-LIMIT unsupported SQL: %v", u)
	}
}

// Death models process death: every connection is dropped, the network refuses, and the
// caller must discard pool, clients and tasks; Revive makes the simulators answer again
// (same database, same nodes) and returns a fresh pool.
//
//go:norace
func (w *W) Death() {
	w.PG.Refuse(true)
	w.PG.DropAll()
	w.Net.Closed = true
}

//go:norace
func (w *W) Revive() error {
	w.PG.Refuse(false)
	w.Net.Closed = false
	old := w.Pool
	go old.Close()
	pool, err := w.PG.NewPool(w.Ctx)
	if err != nil {
		return err
	}
	w.Pool = pool
	return nil
}

// Task wraps a real shovel task with its identity.
type Task struct {
	T           *shovel.Task
	Src, IG     string
	Start, Stop uint64
	Batch, Conc int
}

//go:norace
func (t *Task) Key() string { return t.Src + "/" + t.IG }

// LoadTasks calls the real loadTasks and returns the tasks sorted by (source, integration).
//
//go:norace
func (w *W) LoadTasks(conf config.Root) ([]*Task, error) {
	ts, err := shovel.VerifLoadTasks(w.Ctx, w.Pool, conf)
	if err != nil {
		return nil, err
	}
	var out []*Task
	for _, t := range ts {
		x := &Task{T: t}
		x.Src, x.IG, x.Start, x.Stop, x.Batch, x.Conc = t.VerifInfo()
		out = append(out, x)
	}
	sort.SliceStable(out, func(i, j int) bool { return out[i].Key() < out[j].Key() })
	return out, nil
}

// Step runs one Converge and classifies the result. Panics of the code under test are returned as outcome "panic".
//
//go:norace
func (t *Task) Step() (outcome string, err error) {
	defer func() {
		if r := recover(); r != nil {
			outcome, err = "panic", fmt.Errorf("panic: %v", r)
		}
	}()
	err = t.T.Converge()
	switch {
	case err == nil:
		return "ok", nil
	case isErr(err, shovel.ErrNothingNew):
		return "nothing", err
	case isErr(err, shovel.ErrDone):
		return "done", err
	case isErr(err, shovel.ErrAhead):
		return "ahead", err
	case isErr(err, shovel.ErrReorg):
		return "reorg", err
	}
	return "error", err
}

//go:norace
func isErr(err, target error) bool {
	for e := err; e != nil; {
		if e == target {
			return true
		}
		u, ok := e.(interface{ Unwrap() error })
		if !ok {
			return false
		}
		e = u.Unwrap()
	}
	return false
}

// Node returns the simulated node of a host.
//
//go:norace
func (w *W) Node(host string) *simeth.Node { return w.Net.Nodes[host] }

// SetChain is an environment operation (a scheduling point for the caller) that replaces the node's chain.
//
//go:norace
func (w *W) SetChain(host string, c *simeth.Chain, label string) {
	vrt.Yield("env:" + label)
	if w.V.Closing() {
		return
	}
	w.Node(host).SetChain(c)
	w.V.Bump()
}
